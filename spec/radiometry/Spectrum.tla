------------------------------ MODULE Spectrum ------------------------------
(* Radiometric spectra of lentil.radiometry as exact mathematics (properties C13, C14, C15).        *)
(*                                                                                                 *)
(* A spectrum is  [e, vu, w, v] :  e the decimal exponent of its wavelength unit (m 0, um -6, nm -9, *)
(* angstrom -10), vu its value unit ("none" | "photlam" | "flam" | "wlam"), w a strictly increasing  *)
(* sequence of positive rationals, v a sequence of rationals of the same length.  Its physical       *)
(* meaning is the piecewise-linear function of wavelength through its samples.                       *)
EXTENDS Integers, Sequences, FiniteSets, TLC, Rat

-----------------------------------------------------------------------------
(* Units (C14) *)
WaveExp == [m |-> 0, um |-> -6, nm |-> -9, angstrom |-> -10]
WaveUnits == DOMAIN WaveExp
\* the factor that converts a number of A into a number of B is 10^(exp A - exp B)
WaveFac(A, B) == WaveExp[A] - WaveExp[B]                      \* as a decimal exponent
\* flux conversions are  (h c / lambda)^p * 10^q ; potentials make every composition consistent by construction
FluxP == [photlam |-> 0, wlam |-> 1, flam |-> 1]
FluxQ == [photlam |-> 0, wlam |-> 0, flam |-> 3]
FluxUnits == DOMAIN FluxP
FluxFac(X, Y) == <<FluxP[Y] - FluxP[X], FluxQ[Y] - FluxQ[X]>>     \* <<p, q>>
ThmUnits == /\ \A A, B, Cc \in WaveUnits : WaveFac(A, B) + WaveFac(B, Cc) = WaveFac(A, Cc) /\ WaveFac(A, A) = 0
            /\ \A X, Y, Zz \in FluxUnits : /\ FluxFac(X, Y)[1] + FluxFac(Y, Zz)[1] = FluxFac(X, Zz)[1]
                                           /\ FluxFac(X, Y)[2] + FluxFac(Y, Zz)[2] = FluxFac(X, Zz)[2]
                                           /\ FluxFac(X, X) = <<0, 0>>

Pow10(k) == LET RECURSIVE P(_)
                P(n) == IF n = 0 THEN 1 ELSE 10 * P(n - 1)
            IN IF k >= 0 THEN <<P(k), 1>> ELSE <<1, P(-k)>>

-----------------------------------------------------------------------------
(* Well-formedness (C15) *)
Increasing(w) == \A k \in 1..(Len(w) - 1) : RLt(w[k], w[k + 1])
WF(s) == /\ Len(s.w) = Len(s.v)          \* (an empty spectrum - e.g. cropped to a range without samples - is well-formed)
         /\ Increasing(s.w) /\ \A k \in 1..Len(s.w) : RLt(R(0), s.w[k])

\* piecewise-linear meaning; Inside tells whether x lies in the sampled range
Inside(s, x) == RLe(s.w[1], x) /\ RLe(x, s.w[Len(s.w)])
Interp(s, x) ==
    IF Len(s.w) = 1 THEN s.v[1]
    ELSE LET k == CHOOSE j \in 1..(Len(s.w) - 1) : RLe(s.w[j], x) /\ RLe(x, s.w[j + 1])
             t == RDiv(RSub(x, s.w[k]), RSub(s.w[k + 1], s.w[k]))
         IN RAdd(s.v[k], RMul(t, RSub(s.v[k + 1], s.v[k])))

\* the same spectrum expressed in another wavelength unit (exponent e2): C14
ToWave(s, e2) == LET f == Pow10(s.e - e2) IN
                 [s EXCEPT !.e = e2,
                           !.w = [k \in 1..Len(s.w) |-> RMul(s.w[k], f)],
                           !.v = IF s.vu = "none" THEN s.v ELSE [k \in 1..Len(s.v) |-> RDiv(s.v[k], f)]]

-----------------------------------------------------------------------------
RMin(a, b) == IF RLe(a, b) THEN a ELSE b
RMax(a, b) == IF RLe(a, b) THEN b ELSE a
(* Integration (C15): trapezoid rule over the samples with lo <= w <= hi *)
Sel(s, lo, hi) == SelectSeq([k \in 1..Len(s.w) |-> k], LAMBDA k : RLe(lo, s.w[k]) /\ RLe(s.w[k], hi))
Trapz(s, lo, hi) ==
    LET idx == Sel(s, lo, hi)
        RECURSIVE T(_)
        T(j) == IF j >= Len(idx) THEN R(0)
                ELSE RAdd(RMul(RDiv(RAdd(s.v[idx[j]], s.v[idx[j + 1]]), R(2)), RSub(s.w[idx[j + 1]], s.w[idx[j]])), T(j + 1))
    IN T(1)
TrapzAll(s) == Trapz(s, s.w[1], s.w[Len(s.w)])
\* the integral of the piecewise-linear meaning itself over [lo, hi] clipped to the sampled range: the partial intervals at
\* bounds that fall between samples are included (for bounds at samples it coincides with Trapz).  The statement fixes the
\* integral only for bounds at samples ("intervals that meet at a sample point"); between samples either reading is accepted.
TrapzExact(s, lo, hi) ==
    LET a == RMax(lo, s.w[1])  b == RMin(hi, s.w[Len(s.w)]) IN
    IF RLe(b, a) THEN R(0)
    ELSE LET inner == Trapz(s, a, b)
             idx == Sel(s, a, b)
             piece(x, y) == RMul(RDiv(RAdd(Interp(s, x), Interp(s, y)), R(2)), RSub(y, x))
         IN IF Len(idx) = 0 THEN piece(a, b)
            ELSE RAdd(RAdd(piece(a, s.w[idx[1]]), inner), piece(s.w[idx[Len(idx)]], b))

\* C14: a change of wavelength unit preserves the integral of a density and the values of a unitless spectrum
ThmToWave(s, e2) == LET t == ToWave(s, e2) IN
                    /\ WF(t)
                    /\ (s.vu # "none") => REq(TrapzAll(t), TrapzAll(s))
                    /\ (s.vu = "none") => t.v = s.v
                    /\ ToWave(t, s.e) = s

-----------------------------------------------------------------------------
(* Binary operations (C13) *)
Op(op, a, b) == CASE op = "add" -> RAdd(a, b) [] op = "sub" -> RSub(a, b) [] op = "mul" -> RMul(a, b)
                  [] op = "div" -> RDiv(a, b)
MinStep(w) == LET RECURSIVE M(_, _)
                  M(k, cur) == IF k >= Len(w) THEN cur ELSE M(k + 1, RMin(cur, RSub(w[k + 1], w[k])))
              IN M(2, RSub(w[2], w[1]))
\* both operands in the unit of the LEFT one; result on num+1 equally spaced points from the smallest to the
\* largest wavelength; at each point op(value or fill, value or fill)
BinOpGrid(s1, s2r, num) ==
    LET lo == RMin(s1.w[1], s2r.w[1])
        hi == RMax(s1.w[Len(s1.w)], s2r.w[Len(s2r.w)])
    IN [j \in 1..(num + 1) |-> RAdd(lo, RMul(RSub(hi, lo), <<j - 1, num>>))]
Sampling(s1, s2r, how) ==
    CASE how = "min" -> RMin(MinStep(s1.w), MinStep(s2r.w))
      [] how = "left" -> MinStep(s1.w)
      [] how = "right" -> MinStep(s2r.w)
\* grid acceptable: the spacing does not exceed the requested one and is not less than half of it (half exactly is what
\* a ceiling taken in floating point yields when the range is an exact multiple of the requested spacing)
GridOK(s1, s2r, num, d) ==
    LET lo == RMin(s1.w[1], s2r.w[1])
        hi == RMax(s1.w[Len(s1.w)], s2r.w[Len(s2r.w)])
        step == RDiv(RSub(hi, lo), R(num))
    IN num >= 1 /\ RLe(step, d) /\ (RLe(RDiv(d, R(2)), step) \/ num = 1)
BinOp(op, s1, s2, num, fill) ==
    LET s2r == ToWave(s2, s1.e)
        g == BinOpGrid(s1, s2r, num)
        val(s, x) == IF Inside(s, x) THEN Interp(s, x) ELSE fill
    \* the result is a density if either operand is one (a unitless transmission times a flux is a flux, in either order);
    \* the quotient of two densities is a pure number (it is the same number in whatever wavelength unit the two are written)
    IN [e |-> s1.e, vu |-> IF s1.vu = "none" THEN s2r.vu ELSE IF op = "div" /\ s2r.vu # "none" THEN "none" ELSE s1.vu, w |-> g,
        v |-> [j \in 1..(num + 1) |-> Op(op, val(s1, g[j]), val(s2r, g[j]))]]
\* grid points that coincide exactly with an end of an operand's range (and are not grid ends) are float ties
BinOpTies(s1, s2, num) ==
    LET s2r == ToWave(s2, s1.e)
        g == BinOpGrid(s1, s2r, num)
        ends == {s1.w[1], s1.w[Len(s1.w)], s2r.w[1], s2r.w[Len(s2r.w)]}
    IN [j \in 1..(num + 1) |-> \E x \in ends : REq(g[j], x)]

-----------------------------------------------------------------------------
(* Resizing operations (C15).  Each returns the new spectrum; the trace specification accepts either this *)
(* result or a refusal that leaves the spectrum unchanged.                                              *)
SubSpec(s, idx) == [s EXCEPT !.w = [j \in 1..Len(idx) |-> s.w[idx[j]]], !.v = [j \in 1..Len(idx) |-> s.v[idx[j]]]]
Crop(s, lo, hi) == SubSpec(s, Sel(s, lo, hi))
RAbsMax(v) == LET RECURSIVE M(_, _)
                  M(k, cur) == IF k > Len(v) THEN cur ELSE M(k + 1, RMax(cur, v[k]))
              IN M(2, v[1])
Trim(s, tol) ==        \* first .. last sample whose value exceeds tol * max(value)
    LET mx == RAbsMax(s.v)
        above == {k \in 1..Len(s.v) : RLt(RMul(tol, mx), s.v[k])}
    IN IF above = {} THEN s
       ELSE LET a == CHOOSE k \in above : \A j \in above : k <= j
                b == CHOOSE k \in above : \A j \in above : k >= j
            IN SubSpec(s, [j \in 1..(b - a + 1) |-> a + j - 1])
\* retained samples are an unchanged contiguous sub-sequence of the old ones
IsSubSeqOf(t, s) == \E a \in 1..Len(s.w) : /\ a + Len(t.w) - 1 <= Len(s.w)
                                           /\ \A j \in 1..Len(t.w) : t.w[j] = s.w[a + j - 1] /\ t.v[j] = s.v[a + j - 1]
\* pad / append keep every old sample and add new ones only outside the old range
Extends(t, s) == \E a \in 0..(Len(t.w) - Len(s.w)) :
                    /\ \A j \in 1..Len(s.w) : t.w[a + j] = s.w[j] /\ t.v[a + j] = s.v[j]
PadValuesOK(t, s, vals) == \E a \in 0..(Len(t.w) - Len(s.w)) :
                    /\ \A j \in 1..Len(s.w) : t.w[a + j] = s.w[j] /\ t.v[a + j] = s.v[j]
                    /\ \A j \in 1..a : t.v[j] = vals[1]
                    /\ \A j \in (a + Len(s.w) + 1)..Len(t.w) : t.v[j] = vals[2]
AppendSpec(s, o) == [s EXCEPT !.w = s.w \o o.w, !.v = s.v \o o.v]
Resample(s, x, fill) == [s EXCEPT !.w = x, !.v = [j \in 1..Len(x) |-> IF Inside(s, x[j]) THEN Interp(s, x[j]) ELSE fill]]

-----------------------------------------------------------------------------
(* Binning (C15): trapezoid rule, bin edges half-way between centres, ends symmetric or inside *)
Edges(c, ends) ==
    LET n == Len(c)
        mid == [k \in 1..(n - 1) |-> RDiv(RAdd(c[k], c[k + 1]), R(2))]
        first == IF ends = "symmetric" THEN RSub(c[1], RSub(mid[1], c[1])) ELSE c[1]
        last == IF ends = "symmetric" THEN RAdd(c[n], RSub(c[n], mid[n - 1])) ELSE c[n]
    IN <<first>> \o mid \o <<last>>
\* chained trapezoid rule on the values sampled at the edges
BinTrapz(s, c, ends, fill) ==
    LET x == Edges(c, ends)
        f(k) == IF Inside(s, x[k]) THEN Interp(s, x[k]) ELSE fill
    IN [k \in 1..Len(c) |-> RMul(RDiv(RAdd(f(k), f(k + 1)), R(2)), RSub(x[k + 1], x[k]))]
SeqSum(q) == LET RECURSIVE S(_)
                 S(k) == IF k > Len(q) THEN R(0) ELSE RAdd(q[k], S(k + 1))
             IN S(1)
=============================================================================
