SPECIFICATION Spec
INVARIANT Cube
INVARIANT OnRing
INVARIANT NoRepeat
INVARIANT Progress
INVARIANT Complete
INVARIANT Adjacent
INVARIANT Pure
INVARIANT NeighbourDist
INVARIANT Separated
INVARIANT Rotated
CONSTRAINT Emit
CHECK_DEADLOCK FALSE
