SPECIFICATION Spec
INVARIANT ScalesInv
INVARIANT RationalThms
INVARIANT Autocorr
INVARIANT NyquistNull
INVARIANT Pre
CONSTRAINT Emit
