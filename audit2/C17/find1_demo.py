"""C17 finding 1: Plane.rescale / Plane.resample corrupt a smooth OPD wherever it is
exactly zero on a sample (zero-crossing lines), because lentil.rescale treats the
value 0 as "outside the data".

exit code 1 + explanation when the violation is observed, 0 otherwise.
"""
import os
import sys

sys.path.insert(0, os.environ.get('LENTIL_REPO', '.'))

import numpy as np
import lentil

print('lentil imported from', lentil.__file__)

WAVE = 650e-9
PISTON = 1e-9   # a constant OPD offset: changes no intensity anywhere


def image(plane):
    w = lentil.Wavefront(WAVE) * plane
    w = lentil.propagate_dft(w, shape=(64, 64), pixelscale=5e-6, oversample=2)
    return w.intensity


def build(n):
    # smooth, well sampled pupil: Gaussian apodisation (1e-9 at the array edge) and
    # an astigmatism-like OPD k*x*y on the usual centred grid (origin at sample n//2)
    y, x = np.meshgrid(np.arange(n) - n//2, np.arange(n) - n//2, indexing='ij')
    sigma = n/9
    amp = np.exp(-(x**2 + y**2)/(2*sigma**2))
    k = 60e-9/(n/4)
    opd = k*x*y                       # exactly 0 on the row y=0 and the column x=0
    return amp, opd, k


violations = []

for n in (128, 127):
    amp, opd, k = build(n)
    # largest OPD step between neighbouring samples inside 2 sigma, in waves
    step = k*(2*n/9)/WAVE
    print(f'\nn = {n}: OPD = k*x*y, |OPD| at (sigma,sigma) = {k*(n/9)**2*1e9:.0f} nm, '
          f'max OPD step per sample within 2 sigma = {step:.3f} waves (well sampled)')

    p = lentil.Pupil(amplitude=amp, opd=opd, pixelscale=1e-3, focal_length=10)
    pc = lentil.Pupil(amplitude=amp, opd=opd + PISTON, pixelscale=1e-3, focal_length=10)

    i_p, i_pc = image(p), image(pc)
    print(f'   image(p) vs image(p + 1 nm piston) before rescaling: '
          f'{np.abs(i_p - i_pc).max()/i_p.max():.1e} (identical optics)')

    for s in (1.5, 2, 3, 4):
        q, qc = p.rescale(s), pc.rescale(s)

        # the OPD that an exact resampling about the centre sample would give
        m = q.shape[0]
        yy, xx = np.meshgrid((np.arange(m) - m//2)/s, (np.arange(m) - m//2)/s, indexing='ij')
        truth = k*xx*yy
        inner = (np.abs(xx) < n/2 - 6) & (np.abs(yy) < n/2 - 6)
        e_opd = np.abs(q.opd - truth)[inner].max()
        e_opd_c = np.abs(qc.opd - PISTON - truth)[inner].max()

        e_img = np.abs(image(q) - i_p).max()/i_p.max()
        e_img_c = np.abs(image(qc) - i_pc).max()/i_pc.max()

        print(f'   scale {s:>3}: max OPD error {e_opd*1e9:8.3f} nm (with piston: {e_opd_c*1e9:.1e} nm)'
              f' | image change / peak {e_img:.1e} (with piston: {e_img_c:.1e})')

        if e_img > 1e-4 and e_img > 100*e_img_c and e_opd > 100*max(e_opd_c, 1e-18):
            violations.append((n, s, e_opd, e_opd_c, e_img, e_img_c))

if violations:
    n, s, e_opd, e_opd_c, e_img, e_img_c = max(violations, key=lambda v: v[4])
    print('\nVIOLATION of C17 (image / OPD preserved to interpolation accuracy):')
    print(f'  {len(violations)} (size, scale) combinations affected; worst: n={n}, scale={s}:')
    print(f'  the rescaled OPD is wrong by {e_opd*1e9:.2f} nm next to the lines where the OPD is exactly 0')
    print(f'  and the propagated image changes by {e_img:.1e} of its peak, while the physically identical')
    print(f'  plane OPD + 1 nm piston (no sample exactly 0) is resampled to {e_opd_c*1e9:.1e} nm and {e_img_c:.1e}.')
    print('  Cause: Plane.rescale calls lentil.rescale(opd, mask=None); lentil.rescale then builds a mask')
    print('  from "img != 0", interpolates it linearly and multiplies the interpolated OPD by it, so every')
    print('  new sample within one old sample of an exact zero of the OPD is scaled towards 0.')
    sys.exit(1)

print('\nno violation observed')
sys.exit(0)
