#!/bin/sh
# usage: tools/eval_seeded.sh <property id> <mutant number> [check ids...]
# Confirms a sub-agent's seeded change (tests pass with it, demo fails with it and passes without), runs the quick
# check(s) against it, and files it under /verif/seeded/<pid>_m<n>/.
# The change is applied in a scratch worktree of /repo (LENTIL_REPO points the checks at it), never in /repo itself,
# so that other runs using /repo are not disturbed; the worktree is reset afterwards.
pid=$1; n=$2; shift 2
checks="${@:-$pid}"
round=${ROUND:-1}
if [ "$round" = "1" ]; then src=/tmp/wt_$pid/out; tag=m; else src=/tmp/wt${round}_$pid/out; tag=r${TAG:-$round}m; fi
dst=/verif/seeded/${pid}_${tag}$n
wt=/tmp/wt_eval
[ -d $wt ] || git -C /repo worktree add -q $wt HEAD
cd $wt || exit 2
git checkout -q --detach "$(git -C /repo rev-parse HEAD)" && git checkout -q -- . && git clean -fdq
LENTIL_REPO=$wt /venv/bin/python $src/mut${n}_demo.py > /tmp/demo_clean.log 2>&1; d0=$?
git apply $src/mut$n.diff || { echo "PATCH DOES NOT APPLY"; exit 2; }
find . -name __pycache__ -prune -exec rm -rf {} + ; tests=$(/venv/bin/python -B -m pytest -q -p no:cacheprovider 2>&1 | tail -1)
LENTIL_REPO=$wt /venv/bin/python $src/mut${n}_demo.py > /tmp/demo_mut.log 2>&1; d1=$?
cd /verif
res=""
for id in $checks; do
  LENTIL_REPO=$wt ./check $id --tier quick > /tmp/seeded_${pid}_m${n}_$id.log 2>&1; rc=$?
  nv=$(grep -c '^VIOLATION' /tmp/seeded_${pid}_m${n}_$id.log)
  res="$res $id:rc=$rc:violations=$nv"
  echo "check $id rc=$rc violations=$nv"; grep 'sig=' /tmp/seeded_${pid}_m${n}_$id.log | head -3
done
cd $wt && git checkout -q -- . && git clean -fdq
echo "tests: $tests | demo clean exit=$d0 mutated exit=$d1"
mkdir -p $dst
cp $src/mut$n.diff $dst/patch.diff; cp $src/mut${n}_demo.py $dst/demo.py; cp $src/mut$n.txt $dst/description.txt
cat > $dst/meta.json <<EOM
{"property": "$pid", "mutant": $n, "tests_with_change": "$tests", "demo_exit_clean": $d0, "demo_exit_mutated": $d1,
 "checks_run": "$res", "confirmed": $( [ "$d0" = "0" ] && [ "$d1" = "1" ] && echo true || echo false ),
 "how": "patch applied in a scratch worktree of /repo at HEAD (LENTIL_REPO), pinned suite run there, demo run with and without the patch, quick check(s) run against it"}
EOM
