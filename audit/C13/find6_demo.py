"""C13 finding 6: the documented two-element fill_value ("the first element is used to
fill below the range, the second above") of Spectrum.add/subtract/multiply/divide/power is
not usable: _interp_common multiplies fill_value with np.ones(commonwave.shape), which
raises ValueError (or, if the common grid happens to have exactly two points, is silently
taken element-wise)."""
import os
import sys

sys.path.insert(0, os.environ['LENTIL_REPO'])

import numpy as np
from lentil.radiometry import Spectrum

a = Spectrum([400., 450., 500.], [1., 2., 3.])
b = Spectrum([600., 650., 700.], [10., 20., 30.])
# common grid 400,450,...,700.  a is undefined ABOVE its range (fill -> 7),
# b is undefined BELOW its range (fill -> 5).
want_wave = np.arange(400., 701., 50.)
want = np.array([1+5, 2+5, 3+5, 7+5, 7+10, 7+20, 7+30.])

fail = []
for fv in [(5, 7), [5., 7.], np.array([5., 7.])]:
    for name in ['add', 'subtract', 'multiply', 'divide', 'power']:
        try:
            r = getattr(a, name)(b, fill_value=fv)
        except Exception as e:
            fail.append('a.%s(b, fill_value=%r) -> %s: %s' % (name, fv, type(e).__name__, e))
            continue
        if name == 'add' and not (np.allclose(r.wave, want_wave) and np.allclose(r.value, want)):
            fail.append('a.add(b, fill_value=%r) = %s, expected %s' % (fv, r.value, want))

# control: scalar fill works
r = a.add(b, fill_value=5)
assert np.allclose(r.value, [6, 7, 8, 10, 15, 25, 35])

if fail:
    print('VIOLATION of C13 (all sampling and interpolation options; fill value used where an '
          'operand is not defined):')
    for f in fail:
        print('  -', f)
    sys.exit(1)
print('no violation observed')
sys.exit(0)
