"""C06 finding 1: the product of two one-element fields with different offsets
is the empty (all-zero) field.

Property: a one-element field is an infinite constant, and the product of two
fields is the pointwise product of their embeddings.  The product of the unit
field Field(1) (this is exactly the field a fresh lentil.Wavefront carries)
with a one-element field of value 3 located at offset (3, 3) must therefore be
non-zero - it is the constant 3 under the property's reading, and it would be
the single sample 3 at (3, 3) if a (1, 1) array were read as a located sample.
lentil returns a Field of size 0 (zero everywhere).
"""
import os, sys
sys.path.insert(0, os.environ.get('LENTIL_REPO', '.'))
import numpy as np
import lentil
from lentil.field import Field
import lentil.field

bad = []

unit = Field(np.array(1, dtype=complex))             # ndim-0, offset [0, 0]
pix = Field(np.full((1, 1), 3.0), offset=[3, 3])     # one-element (1, 1) array
for label, a, b in (('Field(1) * Field([[3]], offset=(3,3))', unit, pix),
                    ('Field([[3]], offset=(3,3)) * Field(1)', pix, unit),
                    ('Field(2) * Field(3, offset=(3,3))', Field(2), Field(3, offset=[3, 3])),
                    ('Field([[2]]) * Field([[3]], offset=(3,3))',
                     Field(np.full((1, 1), 2.0)), pix)):
    c = a * b
    if c.size == 0:
        bad.append(f'{label}: product has size 0 (identically zero); expected the '
                   f'non-zero value {complex(a.data.ravel()[0] * b.data.ravel()[0])}')

# the same operands are handled as constants as soon as a larger array is involved,
# so the product is not even associative
A = Field(np.ones((4, 4)))
left = (unit * A) * pix
if not np.allclose(left.data, 3):
    bad.append('unexpected: (unit*A)*pix is not 3 everywhere on A')
try:
    right = (unit * pix) * A
    same = right.shape == left.shape and np.allclose(right.data, left.data)
    if not same:
        bad.append(f'(unit*pix)*A has shape {right.shape}, but (unit*A)*pix is 3 on a (4,4) array')
except Exception as e:
    bad.append(f'(unit*pix)*A raises {type(e).__name__}: {e}; (unit*A)*pix is 3 on a (4,4) array')

# end to end: a segmented pupil one of whose segments is a single pixel
mask = np.zeros((2, 8, 8))
mask[0, 1, 1] = 1            # single-pixel segment, off centre
mask[1, 5, 5:7] = 1          # two-pixel segment
pupil = lentil.Pupil(amplitude=1, mask=mask, pixelscale=1, focal_length=10)
w = lentil.Wavefront(500e-9) * pupil
got = np.abs(w.field) > 0
if not np.array_equal(got, mask.sum(axis=0) > 0):
    bad.append('Wavefront * Pupil(segmented mask): the single-pixel segment at [1, 1] '
               f'is missing from the wavefront ({int(got.sum())} lit samples, '
               f'{int(mask.sum())} expected)')

if bad:
    print('C06 VIOLATED (product of one-element fields):')
    for b in bad:
        print('  -', b)
    sys.exit(1)
print('ok')
sys.exit(0)
