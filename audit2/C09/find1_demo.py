"""C09 finding 1: with rectangular pixels (pixelscale given as a (2,) pair, as
documented) propagate_fft rounds the FFT grid independently per axis but
reports ONE propagation wavelength (the smaller of the two per-axis values).
The returned field therefore is not the DFT propagation at the reported
wavelength: along the other axis it is sampled for a different wavelength.
"""
import os, sys
sys.path.insert(0, os.environ.get('LENTIL_REPO', '.'))
import numpy as np
import lentil
import lentil.fourier

print('lentil from', lentil.__file__)


def run(dx, du, label):
    z, wl, os_ = 10.0, 640e-9, 2
    rng = np.random.default_rng(0)
    amp = rng.uniform(0.5, 1.0, size=(12, 12))
    w = lentil.Wavefront(wl) * lentil.Pupil(amplitude=amp, pixelscale=dx,
                                            focal_length=z)
    shape = (6, 6)
    f = lentil.propagate_fft(w, du, shape=shape, oversample=os_)

    # DFT propagation of the same pupil field at the wavelength the FFT reports
    w2 = lentil.Wavefront(f.wavelength) * lentil.Pupil(amplitude=amp, pixelscale=dx,
                                                       focal_length=z)
    assert np.array_equal(w2.field, w.field)   # no OPD: field does not depend on wavelength
    d = lentil.propagate_dft(w2, du, shape=shape, oversample=os_)

    grid = lentil.scratch_shape(wl, dx, du, z, os_)
    dxv = np.broadcast_to(dx, (2,)); duv = np.broadcast_to(du, (2,))
    per_axis = np.asarray(grid) / os_ * dxv * duv / z
    rel = np.max(np.abs(f.field - d.field)) / np.max(np.abs(d.field))

    # what the FFT really computed: a DFT with alpha = 1/grid on each axis
    true = lentil.fourier.dft2(w.field, alpha=(1/grid[0], 1/grid[1]),
                               shape=f.field.shape)
    rel_true = np.max(np.abs(f.field - true)) / np.max(np.abs(true))

    print(f'{label}: dx={dx} du={du}')
    print(f'   FFT grid {grid}, per-axis wavelength {per_axis}, reported {f.wavelength}')
    print(f'   max|FFT - DFT(reported wavelength)| / max|DFT| = {rel:.3e}')
    print(f'   max|FFT - DFT(alpha=1/grid per axis)|  / max   = {rel_true:.3e}')
    return rel


ctrl = run(0.1, 5e-6, 'control, square pixels      ')
r1 = run(0.1, (5e-6, 7e-6), 'rectangular detector pixels ')
r2 = run((0.1, 0.12), 5e-6, 'rectangular pupil sampling  ')

assert ctrl < 1e-10, 'control case should agree'
if r1 > 1e-6 or r2 > 1e-6:
    print('VIOLATION: propagate_fft does not return the DFT propagation at the '
          'wavelength it reports when the pixel scale differs between the axes '
          '(relative error %.2g / %.2g of the peak field).' % (r1, r2))
    sys.exit(1)
print('no violation')
sys.exit(0)
