"""X03 (growth of the specification beyond the twenty properties) - a polychromatic exposure as a state machine.

Broadband.tla: one action per wavelength (build the monochromatic chain, accumulate weight x intensity into one frame),
enabled in any order, then Readout (rebin, charge, digitisation).  TLC explores every interleaving of every case, checks
Confluent / NonNegFrame / Monotone / ReadoutOnce / HistOK and prints every reachable state.  Every behaviour is replayed
into lentil - Wavefront * Pupil -> propagate_dft -> Wavefront.insert(frame, weight) in the order TLC chose - and the real
frame is compared with the specification's state after EVERY step, the digital numbers at the end.
"""
import random
from fractions import Fraction as Fr

import numpy as np

from harness.core import import_lentil
from harness.tlc import eval_cases, WORK
from harness.cyclo import phi_file
from harness import optics as ox
from harness import spectra as sp

LEVEL = 'model_checking'
EXTRA = True


def run(ctx):
    lentil = import_lentil()
    rng = random.Random(303 + ctx.seed)
    cases = []
    lam0 = Fr(1, 128)
    for _ in range(60 if ctx.tier == 'quick' else 600):
        m, n = rng.randint(2, 4), rng.randint(2, 4)
        amp = np.array([[rng.choice((0, 1, 1, 2)) for _ in range(n)] for _ in range(m)])
        amp[0, 0] = amp[-1, -1] = 1
        opd = np.array([[rng.randrange(4) for _ in range(n)] for _ in range(m)])          # quarter waves AT lambda0
        os_ = rng.choice((1, 2))
        shape = (rng.choice((2, 4)), rng.choice((2, 4)))
        dx = (Fr(1, 2), Fr(1, 2))
        z = Fr(4)
        du = (lam0 * z * os_ / (4 * dx[0]),) * 2                                        # K = 4 at lambda0, 2 at lambda0/2, 1 at lambda0/4
        divs = rng.sample([1, 2, 4], rng.randint(2, 3))
        band = []
        for dv in divs:
            # the plane's OPD in metres is fixed; in units of a quarter of THIS wavelength it is dv times larger
            prog = {'id': 0, 'N': 4, 'wf': ox.wf(lam0 / dv), 'thm': 'none',
                    'steps': [ox.plane('Pupil', amp=amp, opd=(opd * dv) % 4, px=dx, z=z), ox.dft(du, shape, None, os_)]}
            band.append({'prog': prog, 'weight': sp.rj(Fr(rng.randint(1, 40), 4)), 'div': dv})
        det = {'os': os_, 'qe': sp.rj(Fr(rng.randint(1, 16), 16)), 'gain': sp.rj(Fr(rng.randint(1, 24), 16)), 'sat': rng.choice(([], [60], [4000]))}
        cases.append({'id': len(cases), 'band': band, 'shape': [shape[0] * os_, shape[1] * os_], 'det': det, 'opd0': opd.tolist()})
    _, res = eval_cases('MC_Broadband', cases, nparts=12, env={'PHI_FILE': phi_file(4, WORK)}, timeout=1500, multi=True)
    ctx.add_tlc(res, 'MC_Broadband (all interleavings of the exposures; Confluent, NonNegFrame, Monotone, ReadoutOnce, HistOK)')
    f = lambda x: float(sp.rf(x))
    states = {}
    for e in res.emits:
        states[(e['case'], tuple(e['hist']), bool(e['read']))] = e
    byid = {c['id']: c for c in cases}
    nbeh = 0
    nties = 0
    for (cid, hist, read), e in states.items():
        if not read:
            continue                       # a complete behaviour ends with Readout: replay it from the start
        c = byid[cid]
        nbeh += 1
        ctx.case((cid, hist), nontrivial=True)
        frame = np.zeros(tuple(c['shape']))
        ok = True
        for k in range(len(hist)):
            b = c['band'][hist[k] - 1]
            obs = ox.run_real(lentil, b['prog'])
            if obs[-1].get('err', 'none') != 'none':
                ctx.violation({'stage': 'chain-' + str(obs[-1]['err'])}, {'case': cid, 'divisor': b['div'], 'msg': obs[-1].get('msg')}, case={'case': c})
                ok = False
                break
            w = obs[-1]['_wavefront']
            out = w.insert(frame, weight=f(b['weight']))
            if out is not frame and out is not None:
                frame = out
            exp_state = states.get((cid, hist[:k + 1], False))
            if exp_state is None:
                raise RuntimeError('state missing from the TLC dump')
            ea = np.array([[f(x) for x in row] for row in exp_state['acc']])
            if frame.shape != ea.shape or not np.allclose(frame, ea, rtol=1e-12, atol=1e-12 * (1 + ea.max())):
                ctx.violation({'stage': 'accumulate', 'step': k + 1, 'nwave': len(hist)},
                              {'case': cid, 'order': list(hist), 'divisors': [c['band'][h - 1]['div'] for h in hist], 'expected': ea, 'observed': frame},
                              case={'case': c, 'order': list(hist)})
                ok = False
                break
        if not ok:
            continue
        d = c['det']
        native = lentil.rebin(frame, d['os'])
        el = lentil.detector.collect_charge(native[np.newaxis, ...], [500.0], f(d['qe']))
        dn = lentil.detector.adc(el, f(d['gain']), saturation_capacity=None if d['sat'] == [] else d['sat'][0])
        edn = np.array(e['dn'])
        tie = np.array(e['tie'], dtype=bool)
        nties += int(tie.sum())
        good = (dn == edn) | (tie & ((dn == edn - 1) | (dn == edn + 1)))
        if dn.shape != edn.shape or not np.all(good):
            ctx.violation({'stage': 'readout'}, {'case': cid, 'order': list(hist), 'expected': edn, 'observed': dn}, case={'case': c, 'order': list(hist)})
    ctx.traces += nbeh
    ctx.extra['behaviours_replayed'] = nbeh
    ctx.extra['states_dumped_by_TLC'] = len(states)
    ctx.skipped['digital numbers at exact floating-point ties of floor()'] = nties
    ctx.sample({'case': cases[0], 'one_state_by_TLC': next(iter(states.values()))}, maxn=1)
    ctx.rule = ('exposure set-ups: pupil <= 4x4 with quarter-wave OPDs at lambda0, bands of 2-3 wavelengths out of lambda0/{1,2,4} with weights k/4, '
                'oversampling 1/2, output 2..4 x 2..4 native pixels; EVERY order of the wavelengths is a behaviour (2 or 6 per case), each replayed')
    ctx.assumptions += ['extra behaviour outside the twenty listed properties; not registered in MANIFEST.json']
