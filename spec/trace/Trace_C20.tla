----------------------------- MODULE Trace_C20 -----------------------------
(* Trace validation for the array-geometry helpers (C20): every event records one call of a lentil   *)
(* helper on integer data together with what it returned; TLC recomputes the result from             *)
(* Geometry.tla and checks the theorems on the event's data.  Verdicts are total.                     *)
EXTENDS Geometry, Json, IOUtils

Trace == JsonDeserialize(IOEnv.TRACE_FILE)
VARIABLES i, bad
vars == <<i, bad>>

Sum3(cu, p, q) == LET RECURSIVE S(_)
                      S(k) == IF k > Len(cu) THEN 0 ELSE cu[k][p][q] + S(k + 1)
                  IN S(1)
Area(m) == Total(m)

Check(e) ==      \* set of names of the clauses that fail on event e
    CASE e.act = "pad" ->
            (IF e.out # Pad(e.a, e.sh) THEN {"pad-value"} ELSE {})
            \cup (IF ~ThmPadOrigin(e.a, e.sh) THEN {"thm-pad-origin"} ELSE {})
            \cup (IF ~ThmPadCrop(e.a, e.sh) THEN {"thm-pad-crop"} ELSE {})
      [] e.act = "padcube" -> IF e.out # PadCube(e.cu, e.sh) THEN {"padcube-value"} ELSE {}
      [] e.act = "subarray" ->
            IF SubOK(e.a, e.sh, e.shift)
            THEN (IF e.err # "none" THEN {"subarray-refused-valid-window"} ELSE
                  IF e.out # Subarray(e.a, e.sh, e.shift) THEN {"subarray-value"} ELSE {})
            ELSE (IF e.err = "none" THEN {"subarray-accepted-window-outside"} ELSE {})
      [] e.act = "boundary" -> IF e.out # Boundary(e.a, e.thr) THEN {"boundary-value"} ELSE {}
      [] e.act = "boundary_slice" ->
            (IF e.out # BoundarySlice(e.a, e.thr, e.pad) THEN {"boundary_slice-value"} ELSE {})
            \cup (IF ~ThmSliceBoundary(e.a, e.thr) THEN {"thm-slice-boundary"} ELSE {})
            \cup (IF e.off # SliceOffset(BoundarySlice(e.a, e.thr, e.pad), <<Rows(e.a), Cols(e.a)>>) THEN {"slice_offset-value"} ELSE {})
      [] e.act = "rebin" ->
            (IF e.out # Rebin(e.a, e.f) THEN {"rebin-value"} ELSE {})
            \cup (IF ~ThmRebinSum(e.a, e.f) THEN {"thm-rebin-sum"} ELSE {})
      [] e.act = "rebincube" -> IF e.out # [k \in 1..Len(e.cu) |-> Rebin(e.cu[k], e.f)] THEN {"rebincube-value"} ELSE {}
      [] e.act = "centroid" ->    \* e.out = <<round(r * total), round(c * total), total>> with the rounding checked by the recorder
            LET c == Centroid(e.a) IN
            IF e.out[3] # Total(e.a) \/ ~REq(c[1], <<e.out[1], e.out[3]>>) \/ ~REq(c[2], <<e.out[2], e.out[3]>>)
            THEN {"centroid-value"} ELSE {}
      [] e.act = "mesh" -> IF e.r # MeshR(e.sh, e.shift) \/ e.c # MeshC(e.sh, e.shift) THEN {"mesh-value"} ELSE {}
      [] e.act = "shape" ->
            (IF ~Binary(e.m) THEN {"shape-not-binary"} ELSE {})
            \cup (IF e.halfturn /\ ~HalfTurnSym(e.m) THEN {"shape-halfturn"} ELSE {})
            \cup (IF e.mirror /\ ~(MirrorRowSym(e.m) /\ MirrorColSym(e.m)) THEN {"shape-mirror"} ELSE {})
      [] e.act = "translate" -> IF ~Translated(e.m1, e.m2, e.d) THEN {"shape-translation"} ELSE {}
      [] e.act = "hexring" ->
            (IF {<<e.cells[k][1], e.cells[k][2], e.cells[k][3]>> : k \in 1..Len(e.cells)} # HexRingSet(e.k) THEN {"hexring-cells"} ELSE {})
            \cup (IF Len(e.cells) # 6 * e.k THEN {"hexring-count"} ELSE {})
            \cup (IF ~ThmRingCount(e.k) \/ ~ThmHexTotal(e.k) THEN {"thm-hex-count"} ELSE {})
      [] e.act = "hexseg" ->
            LET n == Len(e.masks)  NR == Rows(e.masks[1])  Cc == Cols(e.masks[1]) IN
            (IF n # 1 + 3 * e.rings * (e.rings + 1) - e.ndrop THEN {"hexseg-count"} ELSE {})
            \cup (IF \E p \in 1..NR, q \in 1..Cc : Sum3(e.masks, p, q) > 1 /\ e.tie[p][q] = 0 THEN {"hexseg-overlap"} ELSE {})
            \cup (IF \E k \in 1..n : (\E q \in 1..Cc : e.masks[k][1][q] # 0 \/ e.masks[k][NR][q] # 0)
                                  \/ (\E p \in 1..NR : e.masks[k][p][1] # 0 \/ e.masks[k][p][Cc] # 0) THEN {"hexseg-border"} ELSE {})
            \cup (IF \E k, l \in 1..n : Abs(Area(e.masks[k]) - Area(e.masks[l])) > e.areabound THEN {"hexseg-area"} ELSE {})
            \cup (IF \E k \in 1..n : ~Binary(e.masks[k]) THEN {"hexseg-not-binary"} ELSE {})

RECURSIVE SetToSeq(_)
SetToSeq(S) == IF S = {} THEN <<>> ELSE LET x == CHOOSE y \in S : TRUE IN <<x>> \o SetToSeq(S \ {x})

Init == i = 0 /\ bad = <<>>
Next == /\ i < Len(Trace)
        /\ i' = i + 1
        /\ LET f == Check(Trace[i + 1]) IN
           bad' = IF f = {} THEN bad ELSE Append(bad, <<Trace[i + 1].id, SetToSeq(f)>>)
Spec == Init /\ [][Next]_vars
Report == (i = Len(Trace)) => PrintT(<<"EMIT", ToJson([n |-> i, bad |-> bad])>>)
Consumed == TLCGet("stats").diameter = Len(Trace) + 1
=============================================================================
