"""C05 finding 1: a power-normalised amplitude does not image to its power when
the segment masks of the pupil share samples (every shared sample is counted
once per segment, coherently)."""
import os
import sys

sys.path.insert(0, os.environ.get('LENTIL_REPO', '.'))

import numpy as np
import lentil

P_TARGET = 3.0
TOL = 1e-9


def image_totals(amp, mask, period, oversample=1):
    """Total image intensity over exactly one period of the transform for the
    DFT and the FFT propagator."""
    pupil = lentil.Pupil(amplitude=amp, mask=mask, pixelscale=1.0, focal_length=1.0)
    w = lentil.Wavefront(wavelength=1.0) * pupil
    # alpha = dx*du/(wavelength*z*oversample) = 1/period on both axes
    du = oversample / period
    dft = lentil.propagate_dft(w, pixelscale=du, shape=period // oversample,
                               oversample=oversample).intensity.sum()
    fft = lentil.propagate_fft(w, pixelscale=du, oversample=oversample).intensity.sum()
    return np.sum(np.abs(w.field) ** 2), dft, fft


failed = False

# --- (a) minimal hand-made case: two segments that share one column -----------
rng = np.random.default_rng(0)
m, n = 6, 7
amp = lentil.normalize_power(rng.random((m, n)) + 0.1, P_TARGET)
mask = np.zeros((2, m, n))
mask[0, :, :4] = 1
mask[1, :, 3:] = 1          # column 3 belongs to both segments
disjoint = np.zeros((2, m, n))
disjoint[0, :, :4] = 1
disjoint[1, :, 4:] = 1      # control: same aperture, no shared sample

print('power of the normalised amplitude: %.15g (target %g)' % (np.sum(amp ** 2), P_TARGET))
for name, msk in (('disjoint masks (control)', disjoint), ('masks sharing column 3', mask)):
    pin, dft, fft = image_totals(amp, msk, period=14)
    print('%-26s field power %.12g  image total DFT %.12g  FFT %.12g'
          % (name, pin, dft, fft))
    if name.startswith('masks') and (abs(dft - P_TARGET) > TOL or abs(fft - P_TARGET) > TOL):
        failed = True
    if name.startswith('disjoint') and (abs(dft - P_TARGET) > TOL or abs(fft - P_TARGET) > TOL):
        print('control failed - harness problem')
        sys.exit(2)

# --- (b) the library's own segment generator -----------------------------------
for gap in (2, 1, 0.5, 0):
    seg = lentil.hex_segments(rings=1, seg_radius=10, seg_gap=gap, drop=())
    shared = int(np.sum(np.sum(seg != 0, axis=0) > 1))
    aperture = np.clip(seg.sum(axis=0), 0, 1)          # transmission 0..1
    a = lentil.normalize_power(aperture, P_TARGET)
    pin, dft, fft = image_totals(a, seg, period=2 * seg.shape[1])
    print('hex_segments(seg_gap=%-3g): %3d shared samples, amplitude power %.12g, '
          'image total DFT %.12g FFT %.12g' % (gap, shared, np.sum(a ** 2), dft, fft))
    if shared and (abs(dft - P_TARGET) > TOL or abs(fft - P_TARGET) > TOL):
        failed = True

if failed:
    print('\nVIOLATION: the amplitude has power p = %g after normalize_power, but the '
          'image over one full period does not total p: samples that belong to k '
          'segment masks enter the wavefront k times.' % P_TARGET)
    sys.exit(1)
print('no violation observed')
sys.exit(0)
