"""Check context: collects what a run covered, classifies discrepancies, writes evidence."""
import hashlib
import json
import os
import sys
import time

VERIF = os.path.dirname(os.path.dirname(os.path.abspath(__file__)))
REPO = os.environ.get('LENTIL_REPO', '/repo')
GUARD = 'LENTIL_VERIF'


def import_lentil():
    """Import lentil from the current working tree of the repository (never a cached copy)."""
    sys.dont_write_bytecode = True
    os.environ[GUARD] = '1'
    if REPO not in sys.path:
        sys.path.insert(0, REPO)
    import lentil
    assert os.path.realpath(lentil.__file__).startswith(os.path.realpath(REPO)), lentil.__file__
    return lentil


def jdefault(o):
    import numpy as np
    if isinstance(o, (np.integer,)):
        return int(o)
    if isinstance(o, (np.floating,)):
        return float(o)
    if isinstance(o, (np.bool_,)):
        return bool(o)
    if isinstance(o, complex):
        return [o.real, o.imag]
    if isinstance(o, np.ndarray):
        if np.iscomplexobj(o):
            return [jdefault(x) for x in o.tolist()] if o.ndim == 1 else [jdefault(np.asarray(x)) for x in o]
        return o.tolist()
    if isinstance(o, (set, frozenset)):
        return sorted(o)
    if isinstance(o, tuple):
        return list(o)
    return repr(o)


def load_known():
    p = os.path.join(VERIF, 'known_findings.json')
    if not os.path.exists(p):
        return {'findings': [], 'fixed': []}
    with open(p) as f:
        return json.load(f)


class Ctx:
    def __init__(self, pid, tier, seed, level='model_checking'):
        self.pid = pid
        self.tier = tier
        self.seed = seed
        self.level = level
        self.t0 = time.time()
        self.evaluations = 0
        self.nontrivial = set()
        self.samples = []
        self.states = 0
        self.transitions = 0
        self.traces = 0
        self.rule = ''
        self.extra = {}
        self.assumptions = []
        self.violations = []     # (sig, detail, case)
        self.skipped = {}
        self.exhaustive = None
        self.tlc_runs = []
        self.machinery_errors = []

    # ---- bookkeeping ------------------------------------------------------------------------
    def add_tlc(self, res, name):
        self.states += res.distinct
        self.transitions += res.generated
        self.tlc_runs.append({'model': name, 'distinct_states': res.distinct,
                              'states_generated': res.generated, 'wall_s': round(res.wall, 2),
                              'emitted': len(res.emits),
                              'coverage': {k: list(v) for k, v in sorted(res.coverage.items())}})

    def case(self, key=None, nontrivial=True):
        """count one evaluated case; key identifies it for the distinct-nontrivial count"""
        self.evaluations += 1
        if nontrivial and key is not None:
            self.nontrivial.add(key if isinstance(key, (str, int, tuple)) else json.dumps(key, sort_keys=True, default=jdefault))

    def sample(self, obj, maxn=4):
        if len(self.samples) < maxn:
            self.samples.append(json.loads(json.dumps(obj, default=jdefault)))

    def skip(self, why):
        self.skipped[why] = self.skipped.get(why, 0) + 1

    def violation(self, sig, detail, case=None):
        """sig: small dict identifying the structural kind of failure (matched against known findings)
        detail: human readable; case: self-contained data for --replay"""
        self.violations.append((sig, detail, case))

    def require_coverage(self, res, actions):
        for a in actions:
            if res.coverage.get(a, (0, 0))[1] == 0:
                self.machinery_errors.append(f'action {a} never taken (vacuous run)')

    # ---- verdict ------------------------------------------------------------------------------
    def finish(self):
        known = load_known()
        findings = [k for k in known.get('findings', []) if k['property'] == self.pid]
        unknown = []
        hit = {}
        for sig, detail, case in self.violations:
            m = None
            for i, k in enumerate(findings):
                if all(sig.get(a) == b for a, b in k['match'].items()):
                    m = i
                    break
            if m is None:
                unknown.append((sig, detail, case))
            else:
                hit[m] = hit.get(m, 0) + 1
        for i, k in enumerate(findings):
            # a listed finding is reported on every run of the unchanged tree (whether or not this
            # run's sample happened to hit it)
            print(f"KNOWN-FINDING: property={self.pid} {k['what']}" + (f" [hit {hit[i]}x in this run]" if i in hit else ''))
        rdir = os.path.join(VERIF, 'replays', self.pid)
        seen = set()
        nviol = 0
        for sig, detail, case in unknown:
            key = json.dumps(sig, sort_keys=True, default=jdefault)
            if key in seen:
                continue
            seen.add(key)
            nviol += 1
            if nviol > 25:
                continue
            os.makedirs(rdir, exist_ok=True)
            h = hashlib.sha1(key.encode()).hexdigest()[:10]
            path = os.path.join(rdir, f'{h}.json')
            with open(path, 'w') as f:
                json.dump({'property': self.pid, 'sig': sig, 'detail': detail, 'case': case}, f, default=jdefault, indent=1)
            print(f'VIOLATION property={self.pid} replay={path}')
            print('  sig=' + key)
            print('  detail=' + json.dumps(detail, default=jdefault)[:1500])
        if not getattr(self, 'replaying', False):
            self.write_evidence(len(unknown))
        for m in self.machinery_errors:
            print('MACHINERY-ERROR:', m)
        if unknown:
            return 1
        if self.machinery_errors:
            return 2
        return 0

    def write_evidence(self, nviol):
        cov = {
            'states': self.states,
            'transitions': self.transitions,
            'traces_validated_against_impl': self.traces,
            'samples': self.samples if self.samples else [{'note': 'no sample recorded'}],
            'evaluations': self.evaluations,
            'distinct_nontrivial': len(self.nontrivial),
            'rule': self.rule,
            'tlc_runs': self.tlc_runs,
            'skipped': self.skipped,
            'known_findings_hit': sum(1 for s, _, _ in self.violations) - nviol,
        }
        if self.exhaustive is not None:
            cov['exhaustive'] = bool(self.exhaustive)
        cov.update(self.extra)
        ev = {
            'property_id': self.pid,
            'tier': self.tier,
            'seed': int(self.seed),
            'level': self.level,
            'coverage': cov,
            'assumptions': self.assumptions,
            'wall_s': round(time.time() - self.t0, 2),
            'violations': nviol,
        }
        sub = 'extras' if self.pid.startswith('X') else 'evidence'
        if os.path.realpath(REPO) != '/repo':
            sub = os.path.join('.work', 'evidence_scratch_tree')      # a run against a scratch copy never rewrites the committed evidence
        os.makedirs(os.path.join(VERIF, sub), exist_ok=True)
        with open(os.path.join(VERIF, sub, f'{self.pid}.json'), 'w') as f:
            json.dump(ev, f, indent=1, default=jdefault)
