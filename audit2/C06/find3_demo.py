"""C06 finding 3: a 0-d one-element field (the library's "infinite constant",
e.g. the initial field of every Wavefront) is a constant only for '*'.
insert() cannot place it in a 2-D array at all, and merge()/reduce()/overlap()
treat it as the single pixel at its offset, so the sum and the product are not
computed on the same embedding (distributivity fails)."""
import os, sys
sys.path.insert(0, os.environ['LENTIL_REPO'])
import numpy as np
import lentil.field as lf
from lentil.field import Field

bad = []
s = Field(2.0)                                   # one-element field, offset [0,0]
ones = Field(np.ones((4, 4)))

# (a) insertion: the part of the constant that falls inside a 4x4 array is 2 everywhere
ref = lf.insert(s * ones, np.zeros((4, 4), dtype=complex))     # library agrees: 2 everywhere
assert np.allclose(ref, 2)
try:
    got = lf.insert(s, np.zeros((4, 4), dtype=complex))
    if not np.allclose(got, 2):
        bad.append('insert(Field(2.0), zeros((4,4))) adds %s pixels, expected the constant 2 everywhere'
                   % np.count_nonzero(got))
except Exception as e:
    bad.append('insert(Field(2.0), zeros((4,4))) raises %s: %s' % (type(e).__name__, e))
got = lf.insert(Field(np.full((1, 1), 2.0)), np.zeros((4, 4), dtype=complex))
if not np.allclose(got, 2):
    bad.append('insert(Field([[2.0]]), zeros((4,4))) changes %d pixel(s); the same field times '
               'ones((4,4)) inserts 2 in all 16' % np.count_nonzero(got))

# (b) sum and product disagree about what the field is
A = Field(np.ones((3, 3)))
B = Field(np.ones((5, 5)))
lhs = lf.merge(s, A) * B                               # (s + A) * B
rhs = lf.merge(s * B, A * B)                           # s*B + A*B
o1 = lf.insert(lhs, np.zeros((7, 7), dtype=complex))
o2 = lf.insert(rhs, np.zeros((7, 7), dtype=complex))
if not np.allclose(o1, o2):
    bad.append('(s + A)*B != s*B + A*B : sums %s vs %s (merge puts s on one pixel, * spreads it over B)'
               % (o1.real.sum(), o2.real.sum()))

# (c) overlap: an infinite constant overlaps every non-empty field
far = Field(np.ones((3, 3)), offset=[10, 10])
if (s * far).size and not lf.overlap((s, far)):
    bad.append('overlap((s, far)) is False although s*far is non-zero on all of far')

if bad:
    print('VIOLATION (C06, one-element field = infinite constant):')
    for b in bad:
        print('  -', b)
    sys.exit(1)
print('ok')
