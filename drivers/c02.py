"""C02 - far-field propagation puts the Fraunhofer field on the right output samples.

B: optical programs  Wavefront * Pupil -> propagate_dft [-> * Image -> propagate_dft]  with off-centre
   supports, per-axis pixel scales (alpha_row != alpha_col), oversampling 1..3, every prop_shape <= shape and
   output masks are evaluated exactly by TLC on Optics.tla (window = centred window or mask bounding box as pixel
   SETS; value = unitary Fraunhofer sum in Z[zeta_N]) and executed on real lentil objects; field (value inside
   the window, exact zero outside), intensity and metadata are compared after every step.
"""
import random
from fractions import Fraction as Fr

import numpy as np

from harness.core import import_lentil
from harness import optics as ox

LEVEL = 'model_checking'

RINGS = {16: [2, 4, 8, 16], 24: [3, 4, 6, 8, 12], 32: [4, 8, 16], 40: [4, 5, 8, 10], 48: [4, 6, 8, 12, 16], 56: [7, 8, 14]}


def rand_pupil(rng, m, n):
    """integer amplitude with off-centre support (some empty border rows/columns) and integer OPD exponents"""
    amp = np.array([[rng.choice((0, 1, 1, 2, 3)) for _ in range(n)] for _ in range(m)])
    if rng.random() < 0.5:
        # blank some border rows/cols so that the bounding box is off-centre
        if m > 2 and rng.random() < 0.7:
            amp[0 if rng.random() < 0.5 else m - 1, :] = 0
        if n > 2 and rng.random() < 0.7:
            amp[:, 0 if rng.random() < 0.5 else n - 1] = 0
    if not amp.any():
        amp[rng.randrange(m), rng.randrange(n)] = 1
    return fix_bbox(rng, amp)


def fix_bbox(rng, amp):
    """the bounding box of the support must hold at least two samples: a one-sample bounding box becomes a
    one-element Field, which lentil treats as an infinite constant (recorded under C06/C07, not C02's subject)"""
    rows = np.flatnonzero(amp.any(axis=1))
    cols = np.flatnonzero(amp.any(axis=0))
    if len(rows) and (rows[-1] - rows[0] + 1) * (cols[-1] - cols[0] + 1) == 1:
        r, c = rows[0], cols[0]
        if amp.shape[1] > 1:
            amp[r, c + 1 if c + 1 < amp.shape[1] else c - 1] = 1
        else:
            amp[r + 1 if r + 1 < amp.shape[0] else r - 1, c] = 1
    return amp


def gen_case(rng, tier):
    q = tier == 'quick'
    N = rng.choice(list(RINGS))
    Ks = RINGS[N]
    maxin = 5 if q else 6
    m, n = rng.randint(1, maxin), rng.randint(1, maxin)
    if m * n == 1:
        n = 2
    amp = rand_pupil(rng, m, n)
    opd = np.array([[rng.randrange(N) for _ in range(n)] for _ in range(m)])
    os_ = rng.choice((1, 2, 3))
    maxo = 8 if q else 10
    M = rng.randint(1, max(1, maxo // os_))
    K = rng.randint(1, max(1, maxo // os_))
    pM, pK = rng.randint(1, M), rng.randint(1, K)
    if rng.random() < 0.4:
        pM, pK = M, K
    # physical parameters: alpha = dx*du/(lam*z*os) = p/q per axis
    qr, qc = rng.choice(Ks), rng.choice(Ks)
    if rng.random() < 0.3:
        qc = qr
    pr = rng.choice([1, 1, 3]) if qr % 3 else 1
    pc = rng.choice([1, 1, 3]) if qc % 3 else 1
    dx = (Fr(1, rng.choice((1, 2, 4))),) * 2
    if rng.random() < 0.4:
        dx = (dx[0], Fr(1, rng.choice((1, 2, 8))))
    z = Fr(rng.choice((2, 4, 8, 3)))
    lam = Fr(1, rng.choice((64, 128, 100)))
    du = (Fr(pr, qr) * lam * z * os_ / dx[0], Fr(pc, qc) * lam * z * os_ / dx[1])
    mask = None
    if rng.random() < 0.35:
        oM, oK = M * os_, K * os_
        mask = np.zeros((oM, oK), dtype=int)
        r0, r1 = sorted((rng.randrange(oM), rng.randrange(oM)))
        c0, c1 = sorted((rng.randrange(oK), rng.randrange(oK)))
        pat = rng.choice(('solid', 'corners', 'islands'))
        if pat == 'solid':
            mask[r0:r1 + 1, c0:c1 + 1] = 1
        elif pat == 'corners':
            mask[r0, c0] = 1
            mask[r1, c1] = 1
        else:
            mask[r0, c0:c1 + 1] = 1
            mask[r0:r1 + 1, c1] = 1
        if rng.random() < 0.15:
            # a mask that does not have the shape of the output array (on one axis or on both): refused
            dr, dc = rng.choice(((1, 0), (0, 1), (-1, 0), (0, -1), (1, 1), (2, -1), (0, 3)))
            mask = np.pad(mask, ((0, max(dr, 0)), (0, max(dc, 0))))[:mask.shape[0] + dr, :mask.shape[1] + dc]
            if mask.size == 0 or not mask.any():
                mask = np.ones((max(oM + dr, 1), max(oK + dc, 1)), dtype=int)
                if mask.shape == (oM, oK):
                    mask = np.ones((oM + 1, oK), dtype=int)
    steps = [ox.plane('Pupil', amp=amp, opd=opd, px=dx, z=z, mask=None if rng.random() < 0.6 else (amp != 0).astype(int)),
             ox.dft(du, (M, K), (pM, pK), os_, mask)]
    steps[1]['explicit_pshape'] = rng.random() < 0.5
    steps[1]['mask_form'] = rng.choice(('int', 'half', 'quarter-float32', 'bool', 'list'))
    c = {'N': N, 'wf': ox.wf(lam), 'steps': steps, 'dir': 'p2i'}
    # (a one-sample propagation result is a one-element Field = infinite constant for the next plane: see C06/C07)
    if rng.random() < 0.3 and M * os_ * K * os_ <= 36 and mask is None and pM * pK * os_ * os_ >= 2:
        # image -> pupil: an Image plane (integer amplitude, phase) on the oversampled canvas, then back
        oM, oK = M * os_, K * os_
        iamp = np.array([[rng.choice((0, 1, 2)) for _ in range(oK)] for _ in range(oM)])
        if not iamp.any():
            iamp[0, 0] = 1
        if iamp.size > 1:
            iamp = fix_bbox(rng, iamp)
        iopd = np.array([[rng.randrange(N) for _ in range(oK)] for _ in range(oM)])
        q2r, q2c = rng.choice(Ks), rng.choice(Ks)
        os2 = rng.choice((1, 2))
        px2 = (du[0] / os_, du[1] / os_)
        du2 = (Fr(1, q2r) * lam * z * os2 / px2[0], Fr(1, q2c) * lam * z * os2 / px2[1])
        M2, K2 = rng.randint(1, max(1, 6 // os2)), rng.randint(1, max(1, 6 // os2))
        steps.append(ox.plane('Image', amp=iamp, opd=iopd))
        steps.append(ox.dft(du2, (M2, K2), None, os2, None))
        c['dir'] = 'p2i2p'
    return c


def sig_of(c, k, kind):
    st = c['steps'][k]
    s = {'kind': kind, 'step_op': st['op'], 'dir': c['dir'] if k > 1 else 'p2i'}
    if st['op'] == 'fft':
        s.update({'input_larger_than_grid': True, 'os': st['os']})
    if st['op'] == 'dft':
        d = c['steps'][1]
        s.update({'masked': st['mask']['k'] != 'none', 'os': st['os'],
                  'window_smaller': st['pshape'] != st['shape'],
                  'nonsquare_px': st['du'][0] != st['du'][1]})
    return s


def check(ctx, lentil, c, spec):
    if c.get('scratch_shape'):
        # (with a caller-supplied scratch buffer, dirty from earlier use)
        c = dict(c, steps=[dict(s_) for s_ in c['steps']])
        c['steps'][-1]['scratch'] = np.full(tuple(c['scratch_shape']), 2 - 3j, dtype=complex)
    real = ox.run_real(lentil, c)
    for (k, kind, detail) in ox.compare(c, spec['obs'], real):
        ctx.violation(sig_of(c, k, kind), dict(detail, step=k, steps=[s['op'] for s in c['steps']]),
                      case={'case': c, 'spec': spec})


def check_scaling(ctx, lentil, c, rng):
    """propagation is linear: the same program with every plane amplitude scaled by k gives k x the field, however small or large k"""
    base = ox.run_real(lentil, c)
    if any(o.get('err', 'none') != 'none' for o in base):
        return
    k = rng.choice((1e-9, 1e-12, 1e-15, 1e9))

    def hook(p, st):
        if st is c['steps'][0]:
            p.amplitude = np.asarray(p.amplitude, dtype=float) * k
        return p
    scaled = ox.run_real(lentil, c, plane_hook=hook)
    for i, (a, b) in enumerate(zip(base, scaled)):
        if b.get('err', 'none') != 'none':
            ctx.violation({'kind': 'scaled-amplitude-' + str(b['err']), 'scale': k}, {'step': i, 'msg': b.get('msg')}, case={'case': c})
            return
        fa, fb = a.get('field'), b.get('field')
        if fa is None or fb is None:
            continue
        fa, fb = np.asarray(fa), np.asarray(fb)
        if fa.shape != fb.shape or not np.allclose(fb / k, fa, rtol=1e-9, atol=1e-12 * (1 + np.abs(fa).max())):
            ctx.violation({'kind': 'not-linear-in-amplitude', 'scale': k, 'step_op': c['steps'][i]['op']},
                          {'step': i, 'max_abs_field': float(np.abs(fa).max()), 'max_abs_scaled_field_over_k': float(np.abs(fb / k).max()) if fa.shape == fb.shape else None},
                          case={'case': c})
            return


def key_of(c):
    d = c['steps'][1]
    a = c['steps'][0]
    return (c['N'], len(a['amp']['v']), len(a['amp']['v'][0]), tuple(d['shape']), tuple(d['pshape']), d['os'],
            str(d['du']), d['mask']['k'], c['dir'], str(a['px']))


def run(ctx):
    lentil = import_lentil()
    rng = random.Random(2002 + ctx.seed)
    n = 1400 if ctx.tier == 'quick' else 12000
    cases = []
    for _ in range(n):
        c0 = gen_case(rng, ctx.tier)
        cases.append(c0)
        if rng.random() < 0.12 and c0['dir'] == 'p2i':
            # the SAME propagation (sampling, shapes) of the same aperture sitting elsewhere in a larger array: equal support shape, another
            # offset - run right after its twin in the same process (a kernel or coordinate cache must know where the data sit)
            import copy as _cp
            c1 = _cp.deepcopy(c0)
            a_ = c1['steps'][0]
            if a_['amp']['k'] == 'a' and a_['opd']['k'] == 'a' and a_['mask']['k'] == 'none':
                top, left = rng.choice(((1, 0), (0, 2), (2, 1), (0, 1)))
                ncol = len(a_['amp']['v'][0])
                a_['amp']['v'] = [[[] for _ in range(ncol + left)] for _ in range(top)] + [[[] for _ in range(left)] + row for row in a_['amp']['v']]
                a_['opd']['v'] = [[0] * (ncol + left) for _ in range(top)] + [[0] * left + row for row in a_['opd']['v']]
                cases.append(c1)
    # the FFT propagator on an input plane with MORE samples than its grid K = 1/alpha (an output pixel coarser than lambda*F#: samples
    # K apart alias onto each other, and the Fraunhofer sum over the whole input plane is what the statement asks for)
    for _ in range(40 if ctx.tier == 'quick' else 300):
        Kr, Kc = rng.choice((4, 6, 8)), rng.choice((4, 6, 8))
        N = 24 if (Kr == 6 or Kc == 6) else 16
        if 8 in (Kr, Kc) and N == 24:
            N = 48
        m_, n_ = Kr + rng.choice((-1, 1, 2, 3)), Kc + rng.choice((0, 1, 2, 4))
        os_ = rng.choice((1, 2))
        dx = (Fr(1, 2),) * 2
        z, lam = Fr(4), Fr(1, 128)
        du = (lam * z * os_ / (Kr * dx[0]), lam * z * os_ / (Kc * dx[1]))
        amp = np.array([[rng.choice((0, 1, 2, 3)) for _ in range(n_)] for _ in range(m_)])
        amp[0, 0] = amp[-1, -1] = 1
        opd = np.array([[rng.randrange(N) for _ in range(n_)] for _ in range(m_)])
        sh = (rng.randint(1, max(1, Kr // os_)), rng.randint(1, max(1, Kc // os_)))
        if rng.random() < 0.3:
            # a window larger than the grid on ONE axis only (either one) is refused: there is no Fraunhofer value to put there
            over = rng.choice((0, 1))
            sh = tuple((Kr, Kc)[a_] // os_ + rng.randint(1, 3) if a_ == over else rng.randint(1, max(1, (Kr, Kc)[a_] // os_ - 1)) for a_ in (0, 1))
        cases.append({'N': N, 'wf': ox.wf(lam), 'dir': 'p2i-fft', 'thm': 'fold',
                      'steps': [ox.plane('Pupil', amp=amp, opd=opd, px=dx, z=z), ox.fft(du, sh, os_)],
                      'scratch_shape': list(rng.choice(((), (Kr, Kc), (Kr + 3, Kc + 1))))})
    for i, c in enumerate(cases):
        c['id'] = i
    spec, results = ox.eval_spec(cases)
    for N, res in results:
        ctx.add_tlc(res, f'MC_Optics ring N={N}')
    for c in cases:
        check(ctx, lentil, c, spec[c['id']])
        d = c['steps'][1]
        if d['op'] == 'fft':
            ctx.case(('fft-input-larger-than-grid', c['N'], len(c['steps'][0]['amp']['v']), len(c['steps'][0]['amp']['v'][0]), tuple(d['shape']), d['os'], str(d['du'])),
                     nontrivial=True)
            continue
        nontriv = d['pshape'] != d['shape'] or d['mask']['k'] != 'none' or d['os'] > 1 or d['du'][0] != d['du'][1]
        ctx.case(key_of(c), nontrivial=nontriv)
    for c in rng.sample(cases, 150 if ctx.tier == 'quick' else 1500):
        check_scaling(ctx, lentil, c, rng)
    # the output shape is a pair of whole numbers however it is typed: an 8-bit integer array for a 50 x 50 output with oversample 3 (150
    # samples) asks for the same output as the tuple (numeric comparison of the two calls; both propagators)
    amp_s = np.ones((6, 7))
    for sdt in (np.uint8, np.int8, np.int16, np.uint16):
        for (shp, os_s) in (((50, 44), 3), ((100, 100), 3), ((128, 20), 2)):
            if shp[0] > np.iinfo(sdt).max:
                continue
            ctx.case(('shape-dtype', np.dtype(sdt).name, shp, os_s))
            w_s = lentil.Wavefront(5e-7) * lentil.Pupil(amplitude=amp_s, pixelscale=1e-3, focal_length=2.0)
            du_s = 5e-7 * 2.0 * os_s / (400 * 1e-3)            # 1/alpha = 400
            try:
                a_ = lentil.propagate_dft(w_s, pixelscale=du_s, shape=shp, oversample=os_s)
                b_ = lentil.propagate_dft(w_s, pixelscale=du_s, shape=np.array(shp, dtype=sdt), prop_shape=np.array(shp, dtype=sdt), oversample=os_s)
                c_ = lentil.propagate_fft(w_s, pixelscale=du_s, shape=np.array(shp, dtype=sdt), oversample=os_s)
                ok = tuple(int(v) for v in a_.shape) == tuple(int(v) for v in b_.shape) == tuple(int(v) for v in c_.shape) == (shp[0] * os_s, shp[1] * os_s) \
                    and np.allclose(a_.field, b_.field, rtol=0, atol=1e-12) and np.allclose(a_.field, c_.field, rtol=0, atol=1e-9)
                err = None
            except Exception as ex:
                ok, err = False, repr(ex)[:160]
            if not ok:
                ctx.violation({'kind': 'output-shape-depends-on-the-integer-type-of-shape', 'shape_dtype': np.dtype(sdt).name},
                              {'shape': list(shp), 'oversample': os_s, 'error': err}, case=None)
    # pixel scales held in single precision are the same pixel scales: the sampling alpha is formed from them in double precision (both
    # scales as float32 arrays, as read from a single precision header; compared with the float64 twin of the very same numbers)
    for (dxv, duv) in ((3e-3, 5e-6), (1e-3, 1.3e-5)):
        dx32, du32 = np.array([dxv, dxv], dtype=np.float32), np.array([duv, duv], dtype=np.float32)
        ampf = np.ones((96, 96))
        res = []
        for (dx_, du_) in ((dx32, du32), (dx32.astype(float), du32.astype(float))):
            wv_ = lentil.Wavefront(6e-7) * lentil.Pupil(amplitude=ampf, pixelscale=dx_, focal_length=4.0)
            res.append(lentil.propagate_dft(wv_, pixelscale=du_, shape=48, oversample=2).field)
        ctx.case(('float32-pixel-scales', dxv, duv))
        dev = float(np.abs(res[0] - res[1]).max() / np.abs(res[1]).max())
        if dev > 1e-12:
            ctx.violation({'kind': 'field-depends-on-the-float-type-of-the-pixel-scales'}, {'dx': dxv, 'du': duv, 'max_difference_over_peak': dev}, case=None)
    # ... and so are a wavelength and a focal length held in single precision (both: their product would be formed in float32)
    for (lam32, z32) in ((np.float32(6.5e-7), np.float32(3.3)), (np.float32(5e-7), np.float32(1.7))):
        res = []
        for (lam_, z_) in ((lam32, z32), (float(lam32), float(z32))):
            wv_ = lentil.Wavefront(lam_) * lentil.Pupil(amplitude=np.ones((48, 48)), pixelscale=1e-3, focal_length=z_)
            res.append(lentil.propagate_dft(wv_, pixelscale=5e-6, shape=(64, 64), oversample=3).field)
        ctx.case(('float32-wavelength-and-focal-length', float(lam32), float(z32)))
        dev = float(np.abs(res[0] - res[1]).max() / np.abs(res[1]).max())
        if dev > 1e-12:
            ctx.violation({'kind': 'field-depends-on-the-float-type-of-wavelength-and-focal-length'}, {'max_difference_over_peak': dev}, case=None)
    ox.binding_selftest(ctx, lentil, cases[0], spec[cases[0]['id']])
    ctx.traces += len(cases)
    ctx.sample({'case': cases[0], 'spec_observations': spec[0]['obs']}, maxn=1)
    ctx.extra['image_to_pupil_cases'] = sum(1 for c in cases if c['dir'] == 'p2i2p')
    # a plane that is used again after its owner trimmed the tilt fit_tilt recorded on it: the image of the LATER wavefront is the image
    # of a plane constructed anew with the attributes the plane has now - displaced by the new tilt - and the earlier wavefront's image stays
    import copy as _copy
    for segmented in (False, True):
        shape_ = (16, 16)
        if segmented:
            mk_ = np.zeros((2,) + shape_)
            mk_[0, 3:8, 3:9] = 1
            mk_[1, 9:14, 8:13] = 1
            amp_ = mk_.sum(axis=0)
        else:
            mk_, amp_ = None, lentil.circle(shape_, 6, antialias=False)
        r_, c_ = lentil.helper.mesh(shape_)
        P_ = lentil.Pupil(amplitude=amp_, opd=(2e-6 * r_ - 1e-6 * c_) * 1e-3 * (amp_ != 0), mask=mk_, pixelscale=1e-3, focal_length=2.0)
        P_.fit_tilt(inplace=True)
        kw_ = dict(pixelscale=20e-6, shape=32, oversample=1)
        for step in range(3):
            ctx.case(('plane-reused-after-tilt-edit', segmented, step))
            w_now = lentil.Wavefront(1e-6) * P_
            f_now = lentil.propagate_dft(w_now, **kw_).field
            # (a plane constructed anew from the public attributes, not a copy of the object: a copy would carry private caches along)
            Pf_ = lentil.Pupil(amplitude=amp_, opd=np.array(P_.opd), mask=mk_, pixelscale=1e-3, focal_length=2.0)
            Pf_.tilt = [_copy.copy(t_) for t_ in P_.tilt]
            f_fresh = lentil.propagate_dft(lentil.Wavefront(1e-6) * Pf_, **kw_).field
            ok_ = np.allclose(f_now, f_fresh, rtol=1e-12, atol=1e-12 * np.abs(f_fresh).max())
            P_.tilt[step % len(P_.tilt)].x += 3e-6
            P_.tilt[0].y -= 2e-6
            f_again = lentil.propagate_dft(w_now, **kw_).field
            ok2_ = np.allclose(f_again, f_now, rtol=1e-12, atol=1e-12 * np.abs(f_now).max())
            if not (ok_ and ok2_):
                ctx.violation({'kind': 'plane-reused-after-its-recorded-tilt-was-edited', 'segmented': segmented, 'later_wavefront_stale': not ok_, 'earlier_wavefront_moved': not ok2_},
                              {'step': step}, case=None)
    ctx.rule = ('seeded programs Wavefront*Pupil -> propagate_dft [-> *Image -> propagate_dft]; pupils <= 5x5 [6x6] with off-centre '
                'support and random phases, per-axis dx/du (alpha_r != alpha_c), oversample 1..3, prop_shape <= shape, masks with '
                'three interior patterns; non-trivial = window smaller than output, or masked, or oversampled, or non-square pixel')
    ctx.assumptions += ['abstraction: ring -> complex128, tolerance 1e-9*(1+sum|expected|); physical parameters are rationals whose '
                        'float images the code receives']


def replay(ctx, rec):
    lentil = import_lentil()
    check(ctx, lentil, rec['case']['case'], rec['case']['spec'])
