"""C10 - a Spectrum editing call that FAILS (raises) has nevertheless modified the
caller's spectrum: Spectrum.to(unit1, unit2) applies the conversions one after the
other, so when the second unit is refused the first conversion has already been
written into the object. The caller who catches the error holds a spectrum that is
neither the one it passed in nor the one it asked for.

exit code 1 + explanation when the violation is observed, 0 otherwise.
"""
import os
import sys

sys.path.insert(0, os.environ['LENTIL_REPO'])

import numpy as np
import lentil
from lentil.radiometry import Spectrum

assert os.path.abspath(lentil.__file__).startswith(os.path.abspath(os.environ['LENTIL_REPO']))


def state(s):
    return s.wave.astype(float).copy(), s.value.astype(float).copy(), s.waveunit, s.valueunit


def describe(st):
    return f'wave={st[0]} {st[2]}, value={st[1]} {st[3]}'


def unchanged(a, b):
    return np.array_equal(a[0], b[0]) and np.array_equal(a[1], b[1]) and a[2:] == b[2:]


failures = []

# 1. a transmission curve (no flux unit): simultaneous conversion of both units, as
#    documented for to(); the flux conversion is refused with a TypeError
s = Spectrum([400., 500., 600.], [0.1, 0.5, 0.9], waveunit='nm', valueunit=None)
before = state(s)
try:
    s.to('um', 'photlam')
    raised = None
except Exception as e:       # noqa
    raised = e
after = state(s)
if raised is not None and not unchanged(before, after):
    failures.append(f"Spectrum(nm, unitless).to('um', 'photlam') raised {type(raised).__name__}: {raised}\n"
                    f"  before: {describe(before)}\n  after : {describe(after)}")

# 2. a flux density: the second unit is misspelt
s = Spectrum([400., 500., 600.], [1., 2., 3.], waveunit='nm', valueunit='photlam')
before = state(s)
try:
    s.to('um', 'photlamm')
    raised = None
except Exception as e:       # noqa
    raised = e
after = state(s)
if raised is not None and not unchanged(before, after):
    failures.append(f"Spectrum(nm, photlam).to('um', 'photlamm') raised {type(raised).__name__}: {raised}\n"
                    f"  before: {describe(before)}\n  after : {describe(after)}")

if failures:
    print('VIOLATION of C10 (a call that did not succeed modified the spectrum supplied by the caller):\n')
    print('\n\n'.join(failures))
    print('\nCause: Spectrum.to loops over its arguments and converts/assigns self.wave, self.value, self.waveunit\n'
          'for each unit in turn; a later unit is only validated when its turn comes.')
    sys.exit(1)
print('no violation observed')
sys.exit(0)
