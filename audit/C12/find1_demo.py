"""C12 finding 1: fit/compose/remove stop being inverse for mode sets that contain
a high Noll index, because lentil.zernike.R evaluates the radial polynomial with an
unstable alternating factorial sum (catastrophic cancellation near rho = 1)."""
import os, sys, warnings
sys.path.insert(0, os.environ.get('LENTIL_REPO', '.'))
warnings.filterwarnings('ignore')
import numpy as np
from scipy.special import eval_jacobi
import lentil

mask = lentil.circle((64, 64), 30, antialias=False)      # plain centred circular mask
rho, theta = lentil.zernike_coordinates(mask)

n = 86
j = n*(n+1)//2 + 1            # Noll index 3742: n = 86, m = 0
modes = [1, 4, 11, j]         # piston, focus, spherical, one high radial mode
coeffs = np.array([1.0, -0.5, 0.25, 0.3])

# reference value of Z_j (stable Jacobi-polynomial form of the radial polynomial)
Ztrue = np.sqrt(n+1) * (-1)**(n//2) * eval_jacobi(n//2, 0, 0, 1 - 2*rho**2) * mask
Zlentil = lentil.zernike(mask, j)
# the four exact modes are comfortably linearly independent on this mask
Btrue = np.stack([lentil.zernike(mask, 1).ravel()*1.0, lentil.zernike(mask, 4).ravel(),
                  lentil.zernike(mask, 11).ravel(), Ztrue.ravel()])
s = np.linalg.svd(Btrue, compute_uv=False)
print('Noll index %d (n=%d, m=0) on a 64x64 circular mask (radius 30)' % (j, n))
print('condition number of the exact mode set            : %.3g' % (s[0]/s[-1]))
print('max |Z_j| exact = %.3g (bound sqrt(n+1) = %.3g), lentil.zernike gives max |Z_j| = %.3g'
      % (np.abs(Ztrue).max(), np.sqrt(n+1), np.abs(Zlentil).max()))

full = np.zeros(j)
full[np.array(modes) - 1] = coeffs
bad = []
for normalize in (True, False):
    o = lentil.zernike_compose(mask, full, normalize=normalize)
    fit = lentil.zernike_fit(o, mask, modes, normalize=normalize)
    err = np.max(np.abs(fit - coeffs))
    print('normalize=%s: fit(compose(c)) = %s  (c = %s), max error %.3g' % (normalize, fit, coeffs, err))
    if err > 1e-6:
        bad.append('fit(compose(c)) != c with normalize=%s (error %.3g)' % (normalize, err))

# an OPD made only of (three of) the removed modes must be reduced to zero
low = np.zeros(j)
low[[0, 3, 10]] = [1.0, -0.5, 0.25]
opd_low = lentil.zernike_compose(mask, low)
res = lentil.zernike_remove(opd_low, mask, modes)
rel = np.max(np.abs(res)) / np.max(np.abs(opd_low))
print('remove %s from an OPD made of modes 1, 4, 11 only: max|residual|/max|opd| = %.3g' % (modes, rel))
if rel > 1e-6:
    bad.append('OPD made only of the removed modes is not reduced to zero (relative residual %.3g)' % rel)
refit = lentil.zernike_fit(res, mask, [1, 4, 11])
print('coefficients of modes 1, 4, 11 still present in the residual: %s' % refit)

# the same with a smaller index, where the damage is partial rather than total
n2 = 78; j2 = n2*(n2+1)//2 + 1
modes2 = [1, 4, 11, j2]
full2 = np.zeros(j2); full2[np.array(modes2) - 1] = coeffs
opd2 = lentil.zernike_compose(mask, full2)
fit2 = lentil.zernike_fit(opd2, mask, modes2)
print('Noll index %d (n=%d): fit error %.3g' % (j2, n2, np.max(np.abs(fit2 - coeffs))))
if np.max(np.abs(fit2 - coeffs)) > 1e-6:
    bad.append('fit(compose(c)) != c for modes %s (error %.3g)' % (modes2, np.max(np.abs(fit2 - coeffs))))

if bad:
    print('\nVIOLATION of C12:')
    for b in bad:
        print('  -', b)
    sys.exit(1)
print('no violation observed')
sys.exit(0)
