"""C03 finding 2: segment masks that share edge samples (closely packed antialiased
segments from lentil.hex_segments, once Plane has binarised them) count the plane's
amplitude once per segment on the shared samples.  The same aperture (same amplitude
array, same OPD) described by the segment cube or by its flattened global mask gives a
different pupil field and a different image."""
import os, sys
sys.path.insert(0, os.environ.get('LENTIL_REPO', '.'))
import numpy as np
import lentil

segmask = lentil.hex_segments(rings=1, seg_radius=16, seg_gap=0.5)   # (6, 89, 89), antialiased
amp = np.sum(segmask, axis=0)            # "the amplitude is the flattened set of segmasks" (docs/examples/segmented.rst)
glob = (amp != 0).astype(int)            # global mask = union of the segment masks
shared = (segmask != 0).sum(axis=0) > 1
r, c = lentil.helper.mesh(amp.shape)
opd = 50e-9*np.sin(r/7.)*np.cos(c/9.)

kw = dict(amplitude=amp, opd=opd, pixelscale=1/96, focal_length=10)
out = []
for mask in (glob, segmask):
    w = lentil.Wavefront(650e-9) * lentil.Pupil(mask=mask, **kw)
    pupil_field = w.field
    w = lentil.propagate_dft(w, pixelscale=5e-6, shape=32, oversample=2)
    out.append((pupil_field, w.field, w.intensity))
(pg, fg, ig), (ps, fs, is_) = out

expected = amp*np.exp(2j*np.pi*opd/650e-9)
print('samples belonging to two segment masks      :', int(shared.sum()), 'of', int(glob.sum()))
print('global mask : max |pupil field - amp*exp(i k opd)| = %.2e' % np.abs(pg - expected).max())
print('segment cube: max |pupil field - amp*exp(i k opd)| = %.2e' % np.abs(ps - expected).max())
ratio = np.abs(ps[shared])/np.abs(pg[shared])
print('   |segmented| / |global| on the shared samples: min %.3f max %.3f' % (ratio.min(), ratio.max()))
print('   largest difference off the shared samples    : %.2e' % np.abs(ps - pg)[~shared].max())
eF = np.abs(fs - fg).max()/np.abs(fg).max()
eI = np.abs(is_ - ig).max()/ig.max()
print('image plane : max |dF|/peak = %.2e   max |dI|/peak = %.2e   power %.4f vs %.4f'
      % (eF, eI, ig.sum(), is_.sum()))

if eF > 1e-9:
    print('VIOLATION: describing the aperture by per-segment masks instead of the global mask '
          'changes field and intensity: on the %d samples that lie in two (binarised) segment '
          'masks Plane.multiply emits amplitude*exp(i k opd) once per segment, so the coherent '
          'sum there is twice the amplitude of the plane.' % int(shared.sum()))
    sys.exit(1)
sys.exit(0)
