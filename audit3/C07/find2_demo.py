"""C07 finding 2: a plane whose mask is a scalar but whose amplitude and/or OPD is an
array produces a wavefront whose `shape` is () although its data are arrays.
`field` and `intensity` then raise, while `insert` happily returns the intensity:
the views of the wavefront do not agree, and the field is not amp*exp(i phi).

exit code 1 (and an explanation) when the violation is observed, 0 otherwise.
"""
import os
import sys

sys.path.insert(0, os.environ.get('LENTIL_REPO', '.'))

import numpy as np
import lentil

wl = 1e-6
rng = np.random.default_rng(0)
amp = rng.uniform(0.5, 1.0, (4, 5))
opd = rng.normal(size=(4, 5)) * 1e-7

cases = {
    'Plane(amplitude=<4x5>, opd=<4x5>, mask=1)':
        (lentil.Plane(amplitude=amp, opd=opd, mask=1), amp*np.exp(2j*np.pi*opd/wl)),
    'Plane(amplitude=<4x5>, mask=True)':
        (lentil.Plane(amplitude=amp, mask=True), amp.astype(complex)),
    'Plane(amplitude=0.5, opd=<4x5>, mask=1)':
        (lentil.Plane(amplitude=0.5, opd=opd, mask=1), 0.5*np.exp(2j*np.pi*opd/wl)),
    'Plane(amplitude=0, opd=<4x5>)':
        (lentil.Plane(amplitude=0, opd=opd), np.zeros((4, 5), complex)),
}

fail = False
for name, (plane, expected) in cases.items():
    w = lentil.Wavefront(wl) * plane
    problems = []
    data_shapes = [f.shape for f in w.data]
    if tuple(w.shape) != expected.shape:
        problems.append(f'wavefront.shape = {w.shape} but its data have shape {data_shapes}')
    try:
        f = w.field
        if f.shape != expected.shape or not np.allclose(f, expected, rtol=1e-12, atol=1e-15):
            problems.append('field != amplitude*exp(2 pi i opd/wavelength)')
    except Exception as e:
        problems.append(f'wavefront.field raises {type(e).__name__}: {e}')
    try:
        i = w.intensity
        if i.shape != expected.shape or not np.allclose(i, np.abs(expected)**2, rtol=1e-12, atol=1e-15):
            problems.append('intensity != |amplitude|**2')
    except Exception as e:
        problems.append(f'wavefront.intensity raises {type(e).__name__}: {e}')
    try:
        out = w.insert(np.zeros(expected.shape), 1.0)
        ins = 'insert() works and ' + ('agrees with |amp|^2' if np.allclose(out, np.abs(expected)**2)
                                       else 'differs from |amp|^2')
    except Exception as e:
        ins = f'insert() raises {type(e).__name__}'
    if problems:
        fail = True
        print(name)
        for p in problems:
            print('   -', p)
        print('   -', ins)

if fail:
    print('VIOLATION: the plane should multiply the field by amplitude*exp(2 pi i OPD/wavelength) '
          '(scalar mask = whole plane) and field / intensity / insert should agree; instead the '
          'wavefront keeps shape () and its field and intensity views cannot be evaluated.')
    sys.exit(1)
print('no violation observed')
sys.exit(0)
