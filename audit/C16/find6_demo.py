"""C16 finding 6: with a scalar wavelength (one slice) a scalar QE and a one-element QE vector work,
but a QE Spectrum makes collect_charge / collect_charge_bayer raise."""
import os, sys
sys.path.insert(0, os.environ['LENTIL_REPO'])
import numpy as np
from lentil.detector import collect_charge, collect_charge_bayer
from lentil.radiometry import Spectrum

fail = []
photons = np.random.default_rng(0).uniform(1, 10, (4, 4))
qe = Spectrum([400., 500., 600.], [.3, .5, .7])
a = collect_charge(photons, 500, 0.5)
b = collect_charge(photons, 500, [0.5])
c = collect_charge(photons, [500], qe)
assert np.allclose(a, b) and np.allclose(a, c) and np.allclose(a, 0.5*photons)
for name, f in [('collect_charge(img, 500, Spectrum)', lambda: collect_charge(photons, 500, qe)),
                ('collect_charge_bayer(img, 500, Spectrum x3, "RGGB")',
                 lambda: collect_charge_bayer(photons, 500, qe, qe, qe, 'RGGB'))]:
    try:
        out = f()
        print(name, 'ok', np.allclose(out, a))
        if not np.allclose(out, a):
            fail.append(name + ' differs from the scalar-QE result')
    except Exception as e:
        print(name, 'raises', repr(e))
        fail.append(name + ' raises ' + repr(e) + ' while scalar / vector QE at the same scalar wavelength work')

if fail:
    print('\nVIOLATION of C16 (same charge whether the efficiency is a scalar, a vector or a spectrum):')
    for f in fail:
        print('  -', f)
    sys.exit(1)
print('no violation observed')
sys.exit(0)
