"""C19 finding 1: lentil.smear computes the smear direction in half (or single)
precision when the angle is a NumPy integer scalar of a small dtype.

np.radians(np.uint8(a)) / np.radians(np.int8(a)) return float16, and
np.radians(np.int16(a)) / np.radians(np.uint16(a)) return float32, so the
"directional sinc along the requested angle" is built for a different angle
(and a direction vector that is not of unit length).
"""
import os
import sys

sys.path.insert(0, os.environ.get('LENTIL_REPO', '.'))
import numpy as np
import lentil


def reference(img, distance, angle_deg):
    # exact circular convolution with the directional sinc, all in float64
    y = np.fft.fftfreq(img.shape[0])
    x = np.fft.fftfreq(img.shape[1])
    xx, yy = np.meshgrid(x, y)
    a = float(angle_deg) * np.pi / 180.0
    k = np.sinc(distance * (np.cos(a) * xx + np.sin(a) * yy))
    z = np.fft.ifft2(np.fft.fft2(img) * k)
    return z


def main():
    # odd sizes: the kernel is Hermitian, so the convolution is real and there
    # is no unpaired Nyquist sample at all
    rng = np.random.default_rng(0)
    img = rng.uniform(20.0, 21.0, (33, 47))   # strictly positive background
    img[10, 20] += 40.0                      # plus two point sources
    img[20, 5] += 90.0
    distance = 12.0

    bad = []
    for a in (90, 200, 37, -20):
        z = reference(img, distance, a)
        assert np.abs(z.imag).max() < 1e-12 and z.real.min() > 0, \
            'reference convolution must be real and non-negative'
        ref = z.real
        out_py = lentil.smear(img, distance, a)            # Python int
        err_py = np.abs(out_py - ref).max() / ref.max()
        assert err_py < 1e-12, err_py                      # sanity: same angle as Python int is fine
        for dt in (np.uint8, np.int8, np.int16, np.uint16, np.int32, np.int64):
            if a < 0 and np.dtype(dt).kind == 'u':
                continue
            if abs(a) > np.iinfo(dt).max:
                continue
            ang = dt(a)
            assert int(ang) == a
            out = lentil.smear(img, distance, ang)
            err = np.abs(out - ref).max() / ref.max()
            # the same image rolled must give the rolled result (holds), and the
            # total is kept (holds); what fails is the transfer function
            print('angle=%4d as %-6s np.radians dtype=%-8s max|out-conv|/max(conv) = %.3e'
                  % (a, np.dtype(dt).name, np.radians(ang).dtype, err))
            if err > 1e-9:
                bad.append((a, np.dtype(dt).name, err))

    if bad:
        print()
        print('VIOLATION: for the SAME requested angle the output of lentil.smear is not the')
        print('circular convolution with the directional sinc along that angle when the angle')
        print('is passed as a small NumPy integer (errors far above rounding):')
        for a, name, err in bad:
            print('   angle=%d (%s): relative error %.2e' % (a, name, err))
        return 1
    print('no violation observed')
    return 0


if __name__ == '__main__':
    sys.exit(main())
