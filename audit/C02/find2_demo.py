"""C02 finding 2: propagate_fft silently crops a pupil that is larger than the
FFT grid round(1/alpha) (under-sampled image plane, Q*oversample < 1), so the
returned samples are not the Fraunhofer sum of the input-plane field.
propagate_dft gives the right values for the very same arguments."""
import os, sys
sys.path.insert(0, os.environ.get('LENTIL_REPO', '.'))
import numpy as np
import lentil


def fraunhofer(f, alpha, out_shape):
    f = np.asarray(f, dtype=complex)
    (m, n), (M, N) = f.shape, out_shape
    R, S = np.arange(m) - m//2, np.arange(n) - n//2
    U, V = np.arange(M) - M//2, np.arange(N) - N//2
    E1 = np.exp(-2j*np.pi*alpha[0]*np.outer(U, R))
    E2 = np.exp(-2j*np.pi*alpha[1]*np.outer(S, V))
    return np.sqrt(abs(alpha[0]*alpha[1])) * (E1 @ f @ E2)


wl, fl, os_ = 500e-9, 10.0, 1
npup, nfft = 16, 12
dx = 1e-3
du = wl*fl*os_/(nfft*dx)          # 1/alpha = 12 exactly: no wavelength re-labelling involved
rng = np.random.default_rng(0)
amp = lentil.normalize_power(np.ones((npup, npup)))
opd = rng.normal(size=(npup, npup))*30e-9
w = lentil.Wavefront(wl) * lentil.Pupil(amplitude=amp, opd=opd, pixelscale=dx, focal_length=fl)

alpha = (dx*du/(wl*fl*os_),)*2
ref = fraunhofer(w.field, alpha, (nfft, nfft))

fft = lentil.propagate_fft(w, pixelscale=du, shape=nfft, oversample=os_)
dft = lentil.propagate_dft(w, pixelscale=du, shape=nfft, oversample=os_)

print('1/alpha =', 1/alpha[0], ' pupil samples =', npup, ' carried wavelength =', fft.wavelength)
e_dft = np.abs(dft.field - ref).max()/np.abs(ref).max()
e_fft = np.abs(fft.field - ref).max()/np.abs(ref).max()
print(f'propagate_dft: max rel. error vs Fraunhofer sum = {e_dft:.2e}')
print(f'propagate_fft: max rel. error vs Fraunhofer sum = {e_fft:.2e}; '
      f'output power {np.sum(np.abs(fft.field)**2):.4f} (input power 1, '
      f'{nfft}^2/{npup}^2 = {nfft**2/npup**2:.4f} = power of the cropped pupil)')
assert e_dft < 1e-10
if e_fft > 1e-9:
    print('VIOLATION of C02: propagate_fft cropped the 16x16 pupil to the 12x12 FFT grid '
          '(lentil.pad(wavefront.field, fft_shape) in lentil/propagate.py) and returned the '
          'transform of the cropped field without any error or warning.')
    sys.exit(1)
print('no violation observed')
sys.exit(0)
