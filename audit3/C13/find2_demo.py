"""C13 finding 2: the quotient (and product / power) of two flux-density spectra is
labelled as a flux density per wavelength unit, so the physical outcome depends on
the wavelength unit in which the SAME two operands are expressed (factor 1000
between nm and um, 10 between nm and angstrom, 1e9 between nm and m)."""
import os, sys, warnings
warnings.simplefilter('ignore')
sys.path.insert(0, os.environ.get('LENTIL_REPO', '.'))
import numpy as np
from lentil.radiometry import Spectrum

w = np.linspace(500., 700., 21)
a = Spectrum(w, np.linspace(1., 2., w.size), 'nm', 'photlam')
b = Spectrum(w, np.linspace(2., 4., w.size), 'nm', 'photlam')   # b == 2a : ratio a/b == 0.5

x_nm = 603.0
base = float((a / b).sample(x_nm, waveunit='nm'))

bad = []
for unit, k in [('um', 1e-3), ('angstrom', 10.), ('m', 1e-9)]:
    a_u = a.copy(); a_u.to(unit)          # the same physical spectra, other wavelength unit
    b_u = b.copy(); b_u.to(unit)
    # sanity: the operands themselves are unit-independent
    assert np.isclose(float(a_u.sample(x_nm, waveunit='nm')), float(a.sample(x_nm, waveunit='nm')))
    for label, r in [('a[%s] / b[%s]' % (unit, unit), a_u / b_u),
                     ('a[%s] / b[nm]' % unit, a_u / b),
                     ('a[nm] / b[%s]' % unit, a / b_u)]:
        got = float(r.sample(x_nm, waveunit='nm'))
        # second way of comparing: convert the result object to nm
        rc = r.copy(); rc.to('nm')
        got2 = float(np.interp(x_nm, rc.wave, rc.value))
        if not (np.isclose(got, base, rtol=1e-6) and np.isclose(got2, base, rtol=1e-6)):
            bad.append('%-22s -> valueunit=%r waveunit=%r, value at %g nm = %.6g (expected %.6g)'
                       % (label, r.valueunit, r.waveunit, x_nm, got, base))

# the same for a product
p_base = float((a * b).sample(x_nm, waveunit='nm'))
a_u = a.copy(); a_u.to('um'); b_u = b.copy(); b_u.to('um')
p_um = float((a_u * b_u).sample(x_nm, waveunit='nm'))
if not np.isclose(p_um, p_base, rtol=1e-2):
    bad.append('a[um] * b[um]          -> value at %g nm = %.6g, but a[nm] * b[nm] gives %.6g' % (x_nm, p_um, p_base))

if bad:
    print('VIOLATION: the outcome of a binary operation depends on the wavelength unit of the operands')
    print('a, b: photlam spectra with b = 2a, so a/b is 0.5 everywhere; (a/b) computed in nm gives %.6g' % base)
    print('\n'.join(bad))
    sys.exit(1)
print('ok')
sys.exit(0)
