SPECIFICATION Spec
INVARIANT LemmaAll
