"""C07 finding 1: a plane (or a field) that consists of ONE sample is treated as a
scalar and broadcast over the whole other operand (lentil/field.py, _mul_broadcast).

Expected (property C07): passing through a plane multiplies the field pointwise by
amplitude*exp(2*pi*i*OPD/wavelength) inside the plane's mask and by ZERO outside it.
"""
import os, sys
sys.path.insert(0, os.environ.get('LENTIL_REPO', '.'))
import numpy as np
import lentil

wl = 1e-6
n = 8
failures = []


def check(name, got, expected):
    err = np.abs(got - expected).max()
    if err > 1e-12:
        failures.append(name)
        print(f'VIOLATION [{name}]: max |field - expected| = {err:.3g}; '
              f'nonzero samples: got {np.count_nonzero(got)}, '
              f'expected {np.count_nonzero(expected)}')


rng = np.random.default_rng(0)
amp = rng.uniform(0.5, 1.0, (n, n))
opd = rng.normal(size=(n, n)) * 1e-7
full = amp * np.exp(2j * np.pi * opd / wl)

# (a) an (n, n) field passes a plane whose mask is one sample (a one-pixel pinhole,
#     off-centre): everything outside that sample must become zero
pin = np.zeros((n, n))
pin[2, 5] = 1
w = lentil.Wavefront(wl) * lentil.Plane(amplitude=amp, opd=opd)
w = w * lentil.Plane(mask=pin)
check('a: array field x one-sample mask', w.field, full * pin)
check('a: intensity', w.intensity, np.abs(full * pin) ** 2)

# (b) same with the pinhole on the centre sample, amplitude given as an array
pin0 = np.zeros((n, n))
pin0[n // 2, n // 2] = 0.5
w = lentil.Wavefront(wl) * lentil.Plane(amplitude=amp, opd=opd)
w = w * lentil.Plane(amplitude=pin0)
check('b: array field x centred one-sample amplitude', w.field, full * pin0)

# (c) a field that has been reduced to one sample is re-inflated by the next plane
w = lentil.Wavefront(wl) * lentil.Plane(amplitude=pin0)          # correct: 1 sample
ok_before = np.allclose(w.field, pin0)
w = w * lentil.Plane(amplitude=amp, opd=opd)
check('c: one-sample field x array plane', w.field, pin0 * full)

# (d) no one-sample mask needed: two ordinary masks that overlap in one sample
m1 = np.zeros((n, n)); m1[1:5, 1:5] = 1       # rows/cols 1..4
m2 = np.zeros((n, n)); m2[4:7, 4:8] = 1       # overlaps m1 only at [4, 4]
w = lentil.Wavefront(wl) * lentil.Plane(amplitude=m1) * lentil.Plane(amplitude=m2)
ok_two = np.allclose(w.field, m1 * m2)
w = w * lentil.Plane(amplitude=amp, opd=opd)
check('d: (m1 x m2 = one sample) x array plane', w.field, m1 * m2 * full)

if failures:
    print(f'field before the last plane was correct in (c): {ok_before}, in (d): {ok_two}')
    print('A one-sample Field/phasor (shape (1, 1)) is broadcast to the shape AND offset '
          'of the other operand by lentil.field._mul_broadcast (test `size == 1`), so the '
          'wavefront is not zeroed outside the mask.')
    sys.exit(1)
print('no violation observed')
sys.exit(0)
