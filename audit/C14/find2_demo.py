"""C14 finding 2: a Vega-magnitude Blackbody converted to another flux unit with
Spectrum.to() samples (and therefore multiplies, adds, bins ...) in a mixture of
units: the Vega zero point stays in photlam while the Planck ratio is taken in
the new unit."""
import os, sys
sys.path.insert(0, os.environ.get('LENTIL_REPO', '.'))
import numpy as np
import lentil.radiometry as R

wave = np.linspace(400., 900., 11)      # nm
temp, mag, band = 5000., 2., 'V'
bad = False

src = R.Blackbody.vegamag(wave, temp, mag, band, waveunit='nm', valueunit='photlam')
s0 = src.sample(wave, waveunit='nm')
print("photlam: max |sample/value - 1| =", np.abs(s0 / src.value - 1).max())
if not np.allclose(s0, src.value, rtol=1e-9):
    bad = True

for vu in ('wlam', 'flam'):
    conv = src.copy()
    conv.to(vu)                          # correct: value * h c / lambda  (x 1e3 for flam)
    s = conv.sample(wave, waveunit='nm') # must reproduce conv.value at its own wavelengths
    ratio = s / conv.value
    print(f"after .to({vu!r}): sample(wave)/value = {ratio.min():.6g} .. {ratio.max():.6g}")
    if not np.allclose(ratio, 1, rtol=1e-9):
        bad = True

    # consequence: multiplying by a transmission of exactly 1 changes the spectrum
    unity = R.Spectrum(wave, np.ones_like(wave), waveunit='nm', valueunit=None)
    prod = conv * unity
    expected = np.interp(prod.wave, conv.wave, conv.value)
    r = prod.value / expected
    print(f"   ({vu} source * unit transmission).value / source.value = {r.min():.6g} .. {r.max():.6g}")
    if not np.allclose(r, 1, rtol=1e-3):
        bad = True

    # and the flux-unit round trip is not restored as far as sample() is concerned
    conv.to('photlam')
    rt = conv.sample(wave, waveunit='nm') / s0
    print(f"   round trip photlam -> {vu} -> photlam: sample ratio = {rt.min():.6g} .. {rt.max():.6g} (fine)")

if bad:
    print("VIOLATION: Blackbody.sample_vegamag takes the Vega zero point in photlam "
          "whatever valueunit is requested, so a Vega-magnitude Blackbody in wlam/flam "
          "samples ~1e18 / ~1e15 times too large (a constant factor lambda_0/(h c), lambda_0 the band centre).")
    sys.exit(1)
print("ok")
sys.exit(0)
