"""C19 finding 2 (border of the property's scope): the pixel-aperture blur with
resampling, lentil.detector.pixelate, returns NaN everywhere for a frame without
signal (a dark exposure) - the 0/0 that was repaired in jitter and smear."""
import os, sys, warnings
sys.path.insert(0, os.environ['LENTIL_REPO'])
import numpy as np
import lentil

warnings.simplefilter('ignore')
fail = False
for shape in ((6, 6), (6, 9), (9, 9)):
    dark = np.zeros(shape)
    blurred = lentil.detector.pixel(dark, 3)          # fine: all zero
    out = lentil.detector.pixelate(dark, 3)
    print(shape, 'pixel -> total', blurred.sum(), '; pixelate ->', out.ravel()[:3], '...')
    if not np.isfinite(out).all() or not (out >= 0).all():
        fail = True
    # jitter / smear handle the same frame
    assert lentil.jitter(dark, 1.0).sum() == 0 and lentil.smear(dark, 2.0, angle=10).sum() == 0
if fail:
    print('VIOLATION: pixelate of a non-negative (all-zero) frame is NaN: not a '
          'non-negative value, total not kept (0 expected).')
    sys.exit(1)
sys.exit(0)
