----------------------------- MODULE MC_Zernike -----------------------------
(* Model for C11 / C12.                                                                              *)
(*  - checks Noll bijection, R(1) = 1 and exact radial orthogonality (ASSUME, evaluated once)         *)
(*  - Phase "index": emits Noll(j) for j <= JMax; "radial": exact radial values at rational nodes;   *)
(*    "coords": centroid and rho^2 of masks from the case file                                       *)
(*  - Phase "alg": enumerates every ordered subset M (|M| <= 3) of six modes and every program of the *)
(*    fit / compose / remove algebra, checks the identities on the exact instance and emits the       *)
(*    programs for replay on lentil                                                                    *)
EXTENDS Zernike, Json, IOUtils
JMax == atoi(IOEnv.ZJMAX)
NOrtho == atoi(IOEnv.ZNORTHO)
Cases == JsonDeserialize(IOEnv.CASES)

ASSUME ThmNoll(NMAX)
ASSUME ThmRadialOne(NMAX)
ASSUME ThmRadialOrtho(NOrtho)

VARIABLES i, M
Modes == 1..6
OrderedSubsets == {<<a>> : a \in Modes} \cup {<<a, b>> : a, b \in Modes} \cup {<<a, b, c>> : a, b, c \in Modes}
Distinct(s) == \A a, b \in 1..Len(s) : a # b => s[a] # s[b]
Init == i = 0 /\ M = <<>>
NextCase == i < Len(Cases) /\ i' = i + 1 /\ M' = <<>>
PickSubset == i = Len(Cases) /\ M = <<>> /\ \E s \in {t \in OrderedSubsets : Distinct(t)} : M' = s /\ i' = i
Next == NextCase \/ PickSubset
Spec == Init /\ [][Next]_<<i, M>>

Nodes == << <<0, 1>>, <<1, 4>>, <<1, 3>>, <<1, 2>>, <<2, 3>>, <<3, 4>>, <<1, 1>>, <<3, 2>> >>   \* the last one lies OUTSIDE the unit disk: the radial polynomial is a polynomial there too
Expected(c) ==
    CASE c.k = "index" -> [id |-> c.id, table |-> [j \in 1..JMax |-> <<Noll(j).n, Noll(j).m, NormSq(Noll(j).n, Noll(j).m)>>]]
      [] c.k = "radial" -> [id |-> c.id, nodes |-> Nodes,
                            vals |-> [j \in 1..JMax |-> [q \in 1..Len(Nodes) |-> Radial(Noll(j).n, Noll(j).m, Nodes[q])]]]
      [] c.k = "coords" -> [id |-> c.id, rhosq |-> RhoSq(c.mask), centroid |-> CentroidOf(c.mask)]
Emit == /\ (i > 0 /\ M = <<>>) => PrintT(<<"EMIT", ToJson(Expected(Cases[i]))>>)
        /\ (M # <<>>) => PrintT(<<"EMIT", ToJson([id |-> <<"alg", M>>, M |-> M])>>)

\* C12 identities on the exact instance, for every ordered subset and a family of coefficient / data vectors
Coefs(n) == IF n = 1 THEN {<<R(2)>>, <<<<-3, 2>>>>}
            ELSE IF n = 2 THEN {<<R(1), R(-2)>>, <<<<1, 2>>, R(0)>>}
            ELSE {<<R(1), R(-2), <<3, 4>>>>, <<R(0), R(5), R(0)>>}
Vectors == {RVec(<<1, 0, 0, 0, 0>>), RVec(<<2, -1, 3, 0, 1>>), RVec(<<0, 4, -2, 1, 1>>)}
AlgTheorems == (M # <<>>) =>
    /\ \A c \in Coefs(Len(M)) : ThmFitCompose(M, c) /\ ThmRemovePure(M, c)
    /\ \A v \in Vectors : ThmRemove(v, M)
=============================================================================
