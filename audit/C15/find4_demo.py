"""C15 finding 4: Spectrum.append cannot append a spectrum of a different length."""
import os, sys
sys.path.insert(0, os.environ['LENTIL_REPO'])
import numpy as np
from lentil.radiometry import Spectrum

bad = []
for n_self, n_other in [(3, 2), (2, 3), (5, 4), (3, 3), (3, 1)]:
    a = Spectrum(400. + 10*np.arange(n_self), np.arange(n_self) + 1.)
    b = Spectrum(600. + 10*np.arange(n_other), np.arange(n_other) + 10.)   # entirely above a
    for cp in (False, True):
        try:
            r = a.copy().append(b, copy=True) if cp else None
            if not cp:
                r = a.copy(); r.append(b)
            ok = (np.array_equal(r.wave, np.concatenate([a.wave, b.wave])) and
                  np.array_equal(r.value, np.concatenate([a.value, b.value])))
            if not ok:
                bad.append(f"lengths {n_self}+{n_other}, copy={cp}: wrong result {r.wave} {r.value}")
        except Exception as e:
            bad.append(f"lengths {n_self}+{n_other}, copy={cp}: {type(e).__name__}: {e}")

if bad:
    print("VIOLATION (append of a valid, strictly later spectrum fails):")
    for x in bad:
        print(" -", x)
    sys.exit(1)
print("ok")
