------------------------------- MODULE Lentil -------------------------------
(* Top-level composition: one imaging chain of lentil as a single exact behaviour                      *)
(*                                                                                                     *)
(*    wavefront -> pupil plane(s) -> far-field propagation -> intensity -> rebin to native pixels       *)
(*              -> charge collection (quantum efficiency) -> digitisation                               *)
(*                                                                                                     *)
(* composed from the modules that specify the parts (Optics for planes and propagation in Z[zeta_N],     *)
(* Geometry for rebinning, Detector for collection and digitisation).  With N = 4 (phases are multiples   *)
(* of a quarter wave) and 1/alpha an integer K, the propagated field is a Gaussian integer times          *)
(* 1/sqrt(K_r K_c), so the INTENSITY is an exact rational and the whole chain down to the digital         *)
(* numbers is integer/rational arithmetic that TLC evaluates.  This is a behaviour no listed property     *)
(* mentions as a whole: each module boundary (field -> intensity -> rebinned frame -> electrons -> DN)     *)
(* is crossed with the conventions the parts promise (centre index, oversampling, floor).                  *)
EXTENDS Integers, Sequences, TLC
CONSTANTS N, PhiN
O == INSTANCE Optics
G == INSTANCE Geometry
D == INSTANCE Detector

ASSUME N = 4

\* |c0 + c1 i + c2 i^2 + c3 i^3|^2 as an integer (zeta_4 = i)
AbsSqInt(v) == (v[1] - v[3]) * (v[1] - v[3]) + (v[2] - v[4]) * (v[2] - v[4])

\* intensity of the observed field of a wavefront, as exact rationals: nsq * |ring part|^2
Intensity(w) == LET f == O!FieldOf(w) IN
                [i \in 1..Len(f) |-> [j \in 1..Len(f[i]) |-> O!RMul(w.nsq, O!R(AbsSqInt(f[i][j])))]]

\* rational frame rebinned by the oversampling factor (sum over os x os blocks)
RebinR(a, f) == [i \in 1..(Len(a) \div f) |-> [j \in 1..(Len(a[1]) \div f) |->
                   LET RECURSIVE S(_, _)
                       S(p, q) == IF p > f THEN O!R(0) ELSE IF q > f THEN S(p + 1, 1)
                                  ELSE O!RAdd(a[(i - 1) * f + p][(j - 1) * f + q], S(p, q + 1))
                   IN S(1, 1)]]

\* the chain: program c.steps (planes, one propagation) then detector parameters c.det
Chain(c) ==
    LET w == O!FinalW(c)
        inten == Intensity(w)
        native == RebinR(inten, c.det.os)
        \* photons = flux * native intensity; electrons = photons * qe; DN = floor(gain * min(e, sat)), >= 0
        e == [i \in 1..Len(native) |-> [j \in 1..Len(native[1]) |-> O!RMul(O!RMul(native[i][j], c.det.flux), c.det.qe)]]
        clip(x) == IF c.det.sat # <<>> /\ O!RLt(O!R(c.det.sat[1]), x) THEN O!R(c.det.sat[1]) ELSE x
        dnr == [i \in 1..Len(e) |-> [j \in 1..Len(e[1]) |-> O!RMul(c.det.gain, clip(e[i][j]))]]
    IN [intensity |-> inten, native |-> native, electrons |-> e,
        dn |-> [i \in 1..Len(dnr) |-> [j \in 1..Len(dnr[1]) |-> IF O!RFloor(dnr[i][j]) < 0 THEN 0 ELSE O!RFloor(dnr[i][j])]],
        \* an exactly integral value before floor() is a floating-point tie
        tie |-> [i \in 1..Len(dnr) |-> [j \in 1..Len(dnr[1]) |-> dnr[i][j][2] = 1]],
        err |-> w.err]

\* conservation across the module boundaries: rebinning keeps the total, so total native intensity = total intensity
ThmRebinTotal(c) == LET r == Chain(c)
                        sum(a) == LET RECURSIVE S(_, _)
                                      S(i, j) == IF i > Len(a) THEN O!R(0) ELSE IF j > Len(a[1]) THEN S(i + 1, 1)
                                                 ELSE O!RAdd(a[i][j], S(i, j + 1))
                                  IN S(1, 1)
                    IN O!REq(sum(r.intensity), sum(r.native))
=============================================================================
