"""helper.boundary_slice() documents ``x : array_like`` and hands x to
lentil.boundary (which converts it with np.asarray), but then reads ``x.shape``
on the caller's object. A mask given as a nested list / tuple - accepted by
boundary, centroid, pad, subarray, window, rebin and slice_offset - makes it
fail with AttributeError instead of returning the bounding slice.

Exit code 1 when the violation is observed, 0 otherwise.
"""
import os
import sys

sys.path.insert(0, os.environ.get('LENTIL_REPO', '.'))

import numpy as np
import lentil
import lentil.helper

mask = [[0, 0, 0, 0, 0],
        [0, 0, 1, 1, 0],
        [0, 0, 1, 1, 0],
        [0, 0, 0, 0, 0]]

expected = lentil.helper.boundary_slice(np.asarray(mask))
print('ndarray  :', expected, 'offset', lentil.helper.slice_offset(expected, np.asarray(mask).shape))
print('boundary(list) :', lentil.boundary(mask))

try:
    got = lentil.helper.boundary_slice(mask)
except Exception as e:  # noqa
    print('list     : %s: %s' % (type(e).__name__, e))
    print()
    print('VIOLATION: boundary_slice(x) with x an array_like that is not an ndarray does not '
          'give the bounding slice (the same data as an ndarray gives %s).' % (expected,))
    sys.exit(1)

if got != expected:
    print('VIOLATION: list input gives', got, 'ndarray input gives', expected)
    sys.exit(1)

print('no violation observed')
sys.exit(0)
