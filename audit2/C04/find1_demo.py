"""C04 finding 1: Plane.fit_tilt corrupts the OPD of a segmented plane whose
segment masks share pixels (e.g. lentil.hex_segments with its default
antialiasing and seg_gap <= 1 pixel).

fit_tilt() must remove only the least-squares tip/tilt of every segment and
record it, so that OPD + recorded tilt is unchanged and the propagated field is
the same with and without the fit.  Here the OPD is a pure piston (there is no
tilt at all to remove, and the recorded tilts are ~1e-21 rad), yet fit_tilt()
doubles the OPD in every pixel that belongs to two segment masks, and the
propagated complex field changes.

exit code 1 = violation observed, 0 = not observed
"""
import os
import sys

sys.path.insert(0, os.environ.get('LENTIL_REPO', '.'))

import numpy as np
import lentil


def main():
    # library's own segmented-aperture generator, default antialias=True
    masks = lentil.hex_segments(rings=1, seg_radius=16, seg_gap=1)
    nseg, nr, nc = masks.shape
    shared = ((masks != 0).sum(axis=0) > 1)
    aperture = ((masks != 0).sum(axis=0) > 0)
    print(f'{nseg} segments on a {nr}x{nc} grid, {int(shared.sum())} pixels '
          f'belong to two segment masks')

    amp = masks.sum(axis=0)
    piston = 150e-9
    opd = np.full((nr, nc), piston)          # no tip/tilt anywhere

    p = lentil.Pupil(amplitude=amp, opd=opd, mask=masks, pixelscale=1e-3,
                     focal_length=3.0)
    pf = p.fit_tilt()

    max_tilt = max(max(abs(t.x), abs(t.y)) for t in pf.tilt)
    d_opd = np.abs(pf.opd - opd)[aperture].max()
    print(f'largest recorded tilt      : {max_tilt:.3e} rad')
    print(f'max |opd_fit - opd| inside : {d_opd:.3e} m  (piston was {piston:.3e} m)')

    w = lentil.Wavefront(650e-9)
    a = lentil.propagate_dft(w * p, pixelscale=5e-6, shape=64, oversample=2)
    b = lentil.propagate_dft(w * pf, pixelscale=5e-6, shape=64, oversample=2)
    # with ~zero recorded tilt every field is evaluated on the whole output
    rel = np.abs(a.field - b.field).max() / np.abs(a.field).max()
    print(f'max |field_fit - field| / max|field| = {rel:.3e}')

    # control: identical set-up with a 2 pixel gap (disjoint masks) is exact
    masks2 = lentil.hex_segments(rings=1, seg_radius=16, seg_gap=2)
    opd2 = np.full(masks2.shape[1:], piston)
    p2 = lentil.Pupil(amplitude=masks2.sum(axis=0), opd=opd2, mask=masks2,
                      pixelscale=1e-3, focal_length=3.0)
    ap2 = (masks2 != 0).sum(axis=0) > 0
    d_opd2 = np.abs(p2.fit_tilt().opd - opd2)[ap2].max()
    print(f'control (seg_gap=2, disjoint masks): max |opd_fit - opd| = {d_opd2:.3e} m')

    if d_opd > 1e-12 or rel > 1e-9:
        print('VIOLATION: fit_tilt() changed an OPD that contains no tilt '
              '(OPD + recorded tilt is not preserved; the propagated field '
              'differs from the un-fitted plane).')
        return 1
    print('no violation observed')
    return 0


if __name__ == '__main__':
    sys.exit(main())
