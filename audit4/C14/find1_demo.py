"""C14 finding 1: Spectrum.to() converts in the storage dtype of the wavelength array.

With wavelengths stored as float32 (exactly representable values such as 400, 407, ...
nm) the wavelength factor is applied in single precision.  Consequences, all far above
double-precision rounding although every *value* involved is float64:

  (a) photlam -> wlam gives values that differ from h*c/lambda by ~8e-8 (relative),
  (b) a Blackbody asked for in 'wlam' and the same Blackbody asked for in 'photlam' and
      converted with .to('wlam') disagree by ~8e-8 (Planck's law is not unit independent),
  (c) converting a per-wavelength density from nm to m changes its integral by ~1e-6,
  (d) after bb.to('um') the stored values no longer agree with Planck's law evaluated at
      the stored wavelengths (~1e-6).

The same spectra with the wavelengths stored as float64 (same numbers) satisfy all four
to ~1e-15.

exit code 1 when the violation is observed, 0 otherwise.
"""
import os
import sys

sys.path.insert(0, os.environ.get('LENTIL_REPO', '.'))

import numpy as np  # noqa: E402
import lentil  # noqa: E402
from lentil import radiometry as R  # noqa: E402

print('lentil from', lentil.__file__)

TOL = 1e-10   # 100x looser than the 1e-12 "rounding" level of the audit
HC = R.H * R.C
bad = []


def report(tag, err32, err64):
    print(f'{tag}: float32 wavelengths {err32:.3e}   float64 wavelengths {err64:.3e}')
    if err32 > TOL and err64 < TOL:
        bad.append(tag)


def run(dtype):
    out = {}
    # wavelengths that are exactly representable in float32 and in float64
    w = np.arange(400, 900, 7).astype(dtype)
    v = np.ones(w.size)                       # float64 values

    # (a) photlam -> wlam against h c / lambda
    s = R.Spectrum(w, v, 'nm', 'photlam')
    s.to('wlam')
    exact = HC / (w.astype(float) * 1e-9)     # W per photon/s, same per-nm density
    out['a'] = np.max(np.abs(s.value / exact - 1))

    # (b) Planck radiance requested in wlam  vs  requested in photlam and converted
    direct = R.Blackbody(w, 5000, 'nm', 'wlam')
    conv = R.Blackbody(w, 5000, 'nm', 'photlam')
    conv.to('wlam')
    out['b'] = np.max(np.abs(conv.value / direct.value - 1))

    # (c) integral of a per-wavelength density under nm -> m
    rng = np.random.default_rng(0)
    wf = np.arange(400, 900, 0.02).astype(dtype)
    vf = 1e8 * rng.random(wf.size)            # float64 values
    s = R.Spectrum(wf, vf, 'nm', 'photlam')
    before = s.integrate(method='trapz')
    s.to('m')
    after = s.integrate(method='trapz')
    out['c'] = abs(after / before - 1)

    # (d) Blackbody converted to um: values vs Planck's law at its own wavelengths
    bb = R.Blackbody(w, 5000, 'nm', 'wlam')
    bb.to('um')
    law = R.planck_radiance(bb.wave, 5000, 'um', 'wlam')
    out['d'] = np.max(np.abs(bb.value / law - 1))
    return out


e32 = run(np.float32)
e64 = run(np.float64)
report('(a) photlam->wlam vs h*c/lambda          ', e32['a'], e64['a'])
report('(b) Blackbody wlam vs photlam.to(wlam)   ', e32['b'], e64['b'])
report('(c) integral after nm->m                 ', e32['c'], e64['c'])
report('(d) Blackbody.to(um) vs Planck at its wave', e32['d'], e64['d'])

if bad:
    print('VIOLATION: Spectrum.to() applies the wavelength factor in float32 '
          '(self.wave * factor keeps the storage dtype); float64 values come out '
          'wrong by 1e-7..1e-6 relative.')
    sys.exit(1)
print('no violation observed')
sys.exit(0)
