"""C07 finding 3: Wavefront.intensity / Wavefront.insert fail with RecursionError for a
wavefront that holds about 1000 or more overlapping fields, while Wavefront.field of
the same wavefront is fine (lentil/field.py, _disjoint recurses once per merged field).

Expected (property C07): for ANY wavefront (single or many fields, overlapping or not)
intensity == |field|**2 sample by sample, and insert() adds weight*intensity.
"""
import os, sys
sys.path.insert(0, os.environ.get('LENTIL_REPO', '.'))
import numpy as np
import lentil

k, s = 34, 2                      # 34 x 34 = 1156 square segments of 2 x 2 samples
n = k * s
mask = np.zeros((k * k, n, n), dtype=np.int8)
for a in range(k):
    for b in range(k):
        mask[a * k + b, a * s:(a + 1) * s, b * s:(b + 1) * s] = 1

pupil = lentil.Pupil(amplitude=np.ones((n, n)), mask=mask, pixelscale=1e-3,
                     focal_length=10.)
w = lentil.Wavefront(5e-7) * pupil
# in the pupil the 1156 fields do not overlap and both views agree
assert np.allclose(w.intensity, np.abs(w.field) ** 2)

wi = lentil.propagate_dft(w, pixelscale=5e-6, shape=8, oversample=1)
print('fields in the image-plane wavefront:', len(wi.data), '(all overlapping)')
field = wi.field                   # works
bad = False
try:
    inten = wi.intensity
    if not np.allclose(inten, np.abs(field) ** 2, rtol=1e-9):
        bad = True
        print('VIOLATION: intensity != |field|^2')
except RecursionError as e:
    bad = True
    print('VIOLATION: Wavefront.intensity raised RecursionError:', e)
try:
    out = wi.insert(np.zeros(field.shape), weight=2.0)
    if not np.allclose(out, 2.0 * np.abs(field) ** 2, rtol=1e-9):
        bad = True
        print('VIOLATION: insert != weight*|field|^2')
except RecursionError as e:
    bad = True
    print('VIOLATION: Wavefront.insert raised RecursionError:', e)

# control: the same optical system with fewer segments is fine
wi_small = lentil.Wavefront.empty(5e-7, shape=wi.shape)
wi_small.data = wi.data[:500]
print('control with 500 of the fields ok:',
      np.allclose(wi_small.intensity, np.abs(wi_small.field) ** 2))

if bad:
    print('lentil.field._disjoint calls itself again after every single merge, so '
          'reduce() needs a recursion depth equal to the number of overlapping fields; '
          'beyond the interpreter limit (1000) intensity/insert cannot be evaluated '
          'although |field|^2 = %.6g is perfectly well defined.' % (np.abs(field) ** 2).sum())
    sys.exit(1)
print('no violation observed')
sys.exit(0)
