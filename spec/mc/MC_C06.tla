------------------------------- MODULE MC_C06 -------------------------------
(* Evaluates the Field semantics of FieldAlg.tla on a file of cases (enumerated exhaustively over  *)
(* shapes/offsets and drawn at random by drivers/c06.py) and emits, for each case, what the real    *)
(* lentil.field / lentil.extent call must return.  One TLC state per case; the design-level lemmas  *)
(* are checked as invariants on every case.                                                        *)
EXTENDS FieldAlg, Json, IOUtils

Cases == JsonDeserialize(IOEnv.CASES)

VARIABLE i
Init == i = 0
Next == i < Len(Cases) /\ i' = i + 1
Spec == Init /\ [][Next]_i

Seq2Set(s) == {s[k] : k \in 1..Len(s)}

Expected(c) ==
    CASE c.k = "mul" ->
            LET w == WindowOf(<<c.a, c.b>>, 1) IN
            [id |-> c.id, w |-> w, canvas |-> Render(LAMBDA p : MulAt(c.a, c.b, p), w),
             const |-> IsConst(c.a) /\ IsConst(c.b),
             cval |-> IF IsConst(c.a) /\ IsConst(c.b) THEN GMul(c.a.d, c.b.d) ELSE GZero]
      [] c.k = "merge" ->
            LET w == WindowOf(c.fs, 1) IN
            [id |-> c.id, w |-> w, canvas |-> Render(LAMBDA p : SumAt(c.fs, p), w),
             overlap |-> Overlap(c.fs[1], c.fs[2])]
      [] c.k = "reduce" ->
            LET w == WindowOf(c.fs, 1) IN
            [id |-> c.id, w |-> w, canvas |-> Render(LAMBDA p : SumAt(c.fs, p), w),
             boundary |-> Boundary(c.fs)]
      [] c.k = "insert" ->
            [id |-> c.id, out |-> InsertSem(c.f, c.tsh, c.t, c.weight, c.intensity)]
      [] c.k = "extent" ->
            [id |-> c.id,
             ea |-> ExtentOf(c.a.sh, c.a.off), eb |-> ExtentOf(c.b.sh, c.b.off),
             overlap |-> Overlap(c.a, c.b), ishape |-> IShape(c.a, c.b),
             ishift |-> IF Overlap(c.a, c.b) THEN IShift(c.a, c.b) ELSE <<>>,
             sa |-> IF Overlap(c.a, c.b) THEN ISlice(c.a, c.b) ELSE <<>>,
             sb |-> IF Overlap(c.a, c.b) THEN ISlice(c.b, c.a) ELSE <<>>,
             centre |-> ExtCentre(ExtentOf(c.a.sh, c.a.off)),
             boundary |-> Boundary(<<c.a, c.b>>)]

Emit == i > 0 => PrintT(<<"EMIT", ToJson(Expected(Cases[i]))>>)

\* A-level lemmas instantiated on every case (commutativity of the semantics, rectangle calculus)
Lemmas == i > 0 =>
    LET c == Cases[i] IN
    CASE c.k = "mul" -> \A p \in ExtPix(WindowOf(<<c.a, c.b>>, 1)) : MulAt(c.a, c.b, p) = MulAt(c.b, c.a, p)
      [] c.k = "extent" -> LemmaRect(c.a.sh, c.a.off, c.b.sh, c.b.off)
      [] OTHER -> TRUE
=============================================================================
