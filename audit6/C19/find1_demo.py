"""C19 finding 1: jitter / smear form scale/pixelscale (distance/pixelscale) in the
storage type of the two arguments.  With both given as numpy float32 (or float16)
scalars or 0-d arrays the quotient is rounded to 24 (11) bits, so the blur differs
from the blur for THE SAME extent expressed in samples (and from the same two
numbers passed as python floats)."""
import os, sys
sys.path.insert(0, os.environ['LENTIL_REPO'])
import numpy as np
import lentil

rng = np.random.default_rng(1)
img = np.full((33, 41), 0.01)
img[10:14, 20:30] += rng.uniform(1, 2, (4, 10))

def rel(a, b):
    return np.abs(a - b).max() / np.abs(b).max()

fail = False
for T in (np.float32, np.float16):
    for kind, wrap in (('scalar', lambda v: v), ('0-d', np.asarray)):
        scale, pixelscale, oversample = wrap(T(10.0)), wrap(T(5.5)), 5
        # the very same numbers as python floats (exact conversions)
        s, p = float(scale), float(pixelscale)
        assert s == scale and p == pixelscale
        samples = s / p * oversample                  # the same extent in samples

        a = lentil.jitter(img, scale, pixelscale=pixelscale, oversample=oversample)
        b = lentil.jitter(img, samples)
        b2 = lentil.jitter(img, s, pixelscale=p, oversample=oversample)
        c = lentil.smear(img, scale, angle=30, pixelscale=pixelscale, oversample=oversample)
        d = lentil.smear(img, samples, angle=30)
        d2 = lentil.smear(img, s, angle=30, pixelscale=p, oversample=oversample)
        assert rel(b2, b) < 1e-12 and rel(d2, d) < 1e-12   # python floats: equivalent
        ej, es = rel(a, b), rel(c, d)
        print('%-8s %-7s jitter differs by %.2e of the peak, smear by %.2e'
              % (T.__name__, kind, ej, es))
        if ej > 1e-10 or es > 1e-10:
            fail = True

if fail:
    print('VIOLATION: an extent given in physical units with a pixel scale (both held '
          'in single / half precision) is not equivalent to the same extent in samples; '
          'the same numbers as python floats are.')
    sys.exit(1)
sys.exit(0)
