"""C19 finding 2: jitter()/smear() compute the flux-restoring factor with
np.sum(img) in the *input dtype*.

For a float16 image np.sum() accumulates and returns float16, so
  * whenever the image total exceeds 65504 the factor is +inf and every output
    sample is inf (even for zero extent, which must be the identity), although
    the function returns float64 and the total is perfectly representable;
  * below that, the total is only kept to float16 precision (1e-4 .. 1e-3
    relative), while the output array itself is float64.
The same expression wraps around for (u)int64 images whose total exceeds the
integer range, which yields *negative* output samples.
The pixel blur (no rescale) handles all of these inputs correctly, and
jitter/smear are exact for the same pixel values stored as float64.
"""
import os
import sys
import warnings

sys.path.insert(0, os.environ["LENTIL_REPO"])
import numpy as np
import lentil

warnings.simplefilter("ignore")
fail = False

# --- (a) float16 image, total 1e6 > 65504 ---------------------------------
rng = np.random.default_rng(0)
img16 = rng.integers(50, 150, size=(100, 120)).astype(np.float16)   # exact in float16
img64 = img16.astype(np.float64)                                      # identical values
total = img64.sum()
for name, f in [("jitter(scale=1.3)", lambda a: lentil.jitter(a, 1.3)),
                ("jitter(scale=0) [identity]", lambda a: lentil.jitter(a, 0)),
                ("smear(distance=2.5, angle=30)", lambda a: lentil.smear(a, 2.5, 30)),
                ("smear(distance=0) [identity]", lambda a: lentil.smear(a, 0, 30))]:
    o16 = f(img16)
    o64 = f(img64)
    ok64 = abs(o64.sum() - total) <= 1e-10 * total
    ok16 = np.all(np.isfinite(o16)) and abs(o16.sum() - total) <= 1e-10 * total
    print("%-32s float64 input: total %.6f (ok=%s) | float16 input (same values): "
          "out dtype %s, total %r" % (name, o64.sum(), ok64, o16.dtype, o16.sum()))
    if ok64 and not ok16:
        fail = True

# --- (b) float16 image with a small total: total kept only to ~1e-4 --------
small16 = rng.uniform(0, 1, (30, 40)).astype(np.float16)
small64 = small16.astype(np.float64)
o = lentil.jitter(small16, 1.0)
rel = abs(o.sum() - small64.sum()) / small64.sum()
rel64 = abs(lentil.jitter(small64, 1.0).sum() - small64.sum()) / small64.sum()
print("float16 30x40 uniform image: jitter total rel. error %.2e (same values as float64: %.2e)"
      % (rel, rel64))
if rel > 1e-6 and rel64 < 1e-12:
    fail = True

# --- (c) int64 image whose total exceeds the int64 range -> negative output
big = np.full((1, 3), 4 * 10**18, dtype=np.int64)       # every sample is a valid int64
o = lentil.jitter(big, 0.7)
print("int64 image of three samples 4e18: jitter output min = %r (input as float64: min = %r)"
      % (o.min(), lentil.jitter(big.astype(float), 0.7).min()))
if o.min() < 0:
    fail = True

# control
p = lentil.detector.pixel(img16, 1)
print("control: pixel(float16 image, oversample=1) total = %.6f (expected %.6f)" % (p.sum(), total))

if fail:
    print("VIOLATION: jitter/smear do not keep the total of a non-negative image / are not "
          "the identity at zero extent / return negative values, because np.sum(img) is "
          "evaluated in the input dtype (float16 overflow and rounding, int64 wrap-around).")
    sys.exit(1)
print("no violation observed")
sys.exit(0)
