"""C10 / finding 1 - the result of multiply / fit_tilt / propagate depends on the
amplitude (or OPD) a plane was *constructed* with, not only on its current
attributes: Plane._mask and Plane._slice are computed once in __init__ and are not
refreshed by the amplitude / opd setters.

exit code 1 + explanation when the violation is observed, 0 otherwise.
"""
import os
import sys
import warnings

sys.path.insert(0, os.environ.get('LENTIL_REPO', '.'))
import numpy as np
import lentil

warnings.simplefilter('ignore')

WL = 650e-9
bad = []


def psf(plane):
    w = lentil.Wavefront(WL) * plane
    return lentil.propagate_dft(w, pixelscale=5e-6, shape=32, oversample=2).intensity


# ---------------------------------------------------------------------------
# (a) amplitude update.  Two pupils whose public attributes (amplitude, opd,
#     pixelscale, focal_length, tilt) are identical; they differ only in how
#     that state was reached.
# ---------------------------------------------------------------------------
big = lentil.circle((64, 64), 24)
small = lentil.circle((64, 64), 8, shift=(5, 3))

a = lentil.Pupil(amplitude=big, pixelscale=1e-3, focal_length=10)          # direct

b = lentil.Pupil(amplitude=small, pixelscale=1e-3, focal_length=10)        # via an update
b.amplitude = big          # "Once a Plane is defined, its attributes can be modified at any time"

same_state = (np.array_equal(a.amplitude, b.amplitude) and np.array_equal(a.opd, b.opd)
              and a.pixelscale == b.pixelscale and a.focal_length == b.focal_length
              and a.tilt == b.tilt == [])
psf_a, psf_b = psf(a), psf(b)
rel = np.abs(psf_a - psf_b).max() / psf_a.max()
print(f'(a) identical amplitude/opd/pixelscale/focal_length/tilt: {same_state}')
print(f'    total power  direct: {psf_a.sum():.3f}   after "b.amplitude = big": {psf_b.sum():.3f}')
print(f'    max |PSF difference| / peak = {rel:.3e}')
wa = lentil.Wavefront(WL) * a
wb = lentil.Wavefront(WL) * b
print(f'    field shapes/offsets  direct: {[(f.shape, tuple(f.offset)) for f in wa.data]}'
      f'   updated: {[(f.shape, tuple(f.offset)) for f in wb.data]}')
if same_state and rel > 1e-9:
    bad.append('(a) Pupil(amplitude=big) and [Pupil(amplitude=small); .amplitude = big] give '
               'different PSFs: the new amplitude is cropped by the mask of the OLD amplitude')

# ---------------------------------------------------------------------------
# (b) OPD update on a default plane: fit_tilt silently does nothing and the
#     wavefront has no shape, although amplitude/opd are the same as for
#     Pupil(opd=O).
# ---------------------------------------------------------------------------
O = lentil.zernike_compose(np.ones((64, 64)), [0, 50e-9, 20e-9, 30e-9])
c = lentil.Pupil(opd=O, pixelscale=1e-3, focal_length=10)
d = lentil.Pupil(pixelscale=1e-3, focal_length=10)
d.opd = O
same_state = (np.array_equal(c.amplitude, d.amplitude) and np.array_equal(c.opd, d.opd)
              and c.pixelscale == d.pixelscale and c.tilt == d.tilt == [])
nc, nd = len(c.fit_tilt().tilt), len(d.fit_tilt().tilt)
wc = lentil.Wavefront(WL) * c
wd = lentil.Wavefront(WL) * d
print(f'(b) identical amplitude/opd/pixelscale/tilt: {same_state}')
print(f'    number of tilts fitted by fit_tilt()   direct: {nc}   after "d.opd = O": {nd}')
print(f'    shape of Wavefront*plane               direct: {wc.shape}   after "d.opd = O": {wd.shape}')
if same_state and (nc != nd or tuple(wc.shape) != tuple(wd.shape)):
    bad.append('(b) Pupil(opd=O) and [Pupil(); .opd = O] behave differently: fit_tilt fits a tilt '
               'for the first and silently nothing for the second, and the product with a '
               'Wavefront has shape (64, 64) for the first and () for the second')

if bad:
    print('\nVIOLATION of C10 (result depends on the history of attribute updates, not on the '
          'current plane state):')
    for msg in bad:
        print(' -', msg)
    sys.exit(1)
print('no violation observed')
sys.exit(0)
