"""C15 finding 1: Spectrum.bin (default Simpson rule) truncates the bin edges
to integers when the bin centres have an integer dtype."""
import os, sys
sys.path.insert(0, os.environ['LENTIL_REPO'])
import numpy as np
from lentil.radiometry import Spectrum

bad = []

# spectrum that is exactly linear everywhere: f(l) = l - 389, sampled every 0.5 nm
w = np.arange(390, 421, 0.5)
s = Spectrum(w, w - 389.0)
centres = np.arange(400, 410)            # uniformly spaced, integer dtype, spacing 1 nm
exact = centres - 389.0                   # integral of f over [c-0.5, c+0.5]
for ends in ('symmetric', 'inside'):
    got_int = s.bin(centres, ends=ends, preserve_power=False)
    got_flt = s.bin(centres.astype(float), ends=ends, preserve_power=False)
    # compare only interior bins (identical edges for both end treatments)
    if not np.allclose(got_int[1:-1], exact[1:-1], rtol=1e-9):
        bad.append(f"ends={ends}: integer centres give {got_int}, exact interior values "
                   f"{exact[1:-1]} (float centres give {got_flt})")
    if not np.allclose(got_int, got_flt, rtol=1e-9):
        bad.append(f"ends={ends}: same centres as int and as float give different bins")

# flat spectrum, the simplest possible case: every bin of width 1 must hold 2.0
flat = Spectrum([1, 2, 3, 4, 5], [2, 2, 2, 2, 2])
g = flat.bin([2, 3], preserve_power=False)
if not np.allclose(g, [2, 2]):
    bad.append(f"flat spectrum of height 2, centres [2, 3] (symmetric edges 1.5/2.5/3.5): "
               f"bins {g}, exact [2, 2]; with float centres: {flat.bin([2., 3.], preserve_power=False)}")
g = flat.bin([2, 3])
if not np.allclose(g, [1, 1]):
    bad.append(f"same with preserve_power=True: bins {g}; equal-width bins of a flat spectrum "
               f"must be equal ([1, 1]); float centres give {flat.bin([2., 3.])}")

if bad:
    print("VIOLATION (bin is not exact for a linear spectrum when centres are integers):")
    for b in bad:
        print(" -", b)
    sys.exit(1)
print("ok")
