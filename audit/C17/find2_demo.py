"""C17 finding 2: Plane.rescale drops the 1/s amplitude factor when the
amplitude is a scalar (the documented default amplitude=1 with an explicit
mask).  Transmitted power and the propagated image are multiplied by s**2.
"""
import os, sys
sys.path.insert(0, os.environ.get('LENTIL_REPO', '.'))
import numpy as np
import lentil

WL = 650e-9


def power(p):
    w = lentil.Wavefront(WL) * p
    return np.sum(np.abs(w.field)**2)


def psf(p):
    w = lentil.Wavefront(WL) * p
    return lentil.propagate_dft(w, shape=(32, 32), pixelscale=5e-6, oversample=3).intensity


n = 64
r, c = lentil.helper.mesh((n, n))
mask = lentil.circle((n, n), 25, antialias=False).astype(int)
opd = 60e-9*(r/n) + 90e-9*((r/n)**2 + (c/n)**2) + 5e-9

# same optics, described two ways
p_scalar = lentil.Pupil(mask=mask, opd=opd, pixelscale=1/n, focal_length=10)                  # amplitude=1 (default)
p_array = lentil.Pupil(amplitude=mask.astype(float), mask=mask, opd=opd, pixelscale=1/n, focal_length=10)
assert np.allclose(psf(p_scalar), psf(p_array))

bad = []
print('scale | power ratio (scalar amp) | image-sum ratio (scalar amp) | power ratio (array amp) | image-sum ratio (array amp)')
for s in [0.5, 0.75, 1, 1.5, 2, 3, 4]:
    qs, qa = p_scalar.rescale(s), p_array.rescale(s)
    rp_s, ri_s = power(qs)/power(p_scalar), psf(qs).sum()/psf(p_scalar).sum()
    rp_a, ri_a = power(qa)/power(p_array), psf(qa).sum()/psf(p_array).sum()
    print(f'{s:5} | {rp_s:10.4f} | {ri_s:10.4f} | {rp_a:10.4f} | {ri_a:10.4f} |  s^2 = {s*s:.4f}   amplitude after = {qs.amplitude!r}')
    if abs(rp_s - 1) > 0.05 or abs(ri_s - 1) > 0.05:
        bad.append((s, rp_s, ri_s))

if bad:
    print('\nVIOLATION: with a scalar amplitude the transmitted power and the image scale as s**2:')
    for s, rp, ri in bad:
        print(f'  scale={s}: power x{rp:.3f}, image x{ri:.3f}')
    sys.exit(1)
print('no violation observed')
sys.exit(0)
