"""C15 - spectrum integration, binning and resizing keep the spectrum well-formed.

A+B: trapezoid integration and binning are evaluated exactly by TLC (Spectrum!Trapz, BinTrapz over rationals), with
   additivity at sample points and linearity checked as theorems on every case; lentil's integrate / bin are compared.
C: seeded random PROGRAMS of crop / trim / pad / append / resample / to on real Spectrum objects with dyadic data are
   recorded (exact rational state before and after every call, or the exception) and validated by TLC against
   Trace_C15: well-formed after every event, retained samples unaltered, crop = closed range, trim = first..last above
   tolerance, pad values and ends, refusals leave the spectrum unchanged, well-defined operations are not refused.
"""
import json
import os
import random
import uuid
from fractions import Fraction as Fr

import numpy as np

from harness.core import import_lentil
from harness.tlc import eval_cases, run_tlc, WORK, TLCError
from harness import spectra as sp

LEVEL = 'model_checking'


def rand_spec(rng, uniform=False, nonneg=True, n=None):
    n = n or rng.randint(2, 7)
    lo = rng.choice((400, 420, 500))
    w = [Fr(lo)]
    for _ in range(n - 1):
        w.append(w[-1] + (2 if uniform else rng.choice((1, 2, 4, Fr(1, 2)))))
    v = [Fr(rng.randint(0 if nonneg else -6, 12), 4) for _ in range(n)]
    if not any(v):
        v[0] = Fr(1)
    return w, v


def integration_and_binning(ctx, lentil, rng):
    q = ctx.tier == 'quick'
    cases = []
    for _ in range(250 if q else 2000):
        w, v = rand_spec(rng, nonneg=False)
        lo = rng.choice(w)
        hi = rng.choice([x for x in w if x >= lo])
        r_ = rng.random()
        if r_ < 0.3:
            lo, hi = lo - Fr(1, 4), hi + Fr(1, 4)            # bounds between samples: only samples inside count
        elif r_ < 0.4:
            # an interval that contains NO sample (beyond the range, or strictly between two neighbouring samples): the integral is 0
            i_ = rng.randrange(len(w))
            gap = (w[i_ + 1] - w[i_]) if i_ + 1 < len(w) else Fr(8)
            lo, hi = w[i_] + gap / 4, w[i_] + gap / 2
        cases.append({'k': 'trapz', 's': sp.spec_json('nm', None, w, v), 'lo': sp.rj(lo), 'hi': sp.rj(hi)})
    for _ in range(250 if q else 2000):
        # spectra that are linear across every bin: kinks only at bin edges (centres spaced 2, edges at odd numbers)
        nb = rng.randint(2, 5)
        c0 = rng.choice((402, 404))
        d = rng.choice((1, 2, 2, 3))
        centres = [Fr(c0 + d * k) for k in range(nb)]
        edges = [centres[0] - Fr(d, 2)] + [c + Fr(d, 2) for c in centres]
        ends = rng.choice(('symmetric', 'inside'))
        # samples exactly at the edges (plus, sometimes, beyond): piecewise linear with kinks at edges only
        w = list(edges)
        if rng.random() < 0.5:
            w = [w[0] - 2] + w + [w[-1] + 2]
        if rng.random() < 0.12:
            w = [edges[0] - 2, edges[-1] + 2]              # no sample inside the span of the bins: one straight line across all of them
        v = [Fr(rng.randint(0, 12), 4) for _ in w]
        line = rng.random() < 0.08
        if line:
            # a narrow emission line on a fine grid: non-zero only at samples that are neither bin edges nor bin centres.  It lies inside
            # the span of the centres, so the power-preserving bins must add up to its integral
            w = [edges[0] - 1 + Fr(k, 4) for k in range(int((edges[-1] - edges[0] + 2) * 4) + 1)]
            c_mid = centres[len(centres) // 2 - 1] if len(centres) > 2 else centres[0]
            v = [Fr(3) if x in (c_mid + Fr(1, 4), c_mid + Fr(1, 8) * 0 + Fr(1, 4) * 1) else Fr(0) for x in w]
        if rng.random() < 0.15:
            # a pass band elsewhere: the spectrum is zero over the whole span of the bins (signal only in the outer samples, if any)
            v = [Fr(0) if edges[0] <= x <= edges[-1] else Fr(3) for x in w]
        cases.append({'k': 'bin', 's': sp.spec_json('nm', None, w, v), 'c': [sp.rj(c) for c in centres], 'ends': ends, 'fill': [0, 1],
                      'linear_in_bins': ends == 'symmetric' and not line, 'odd_spacing': d % 2 == 1, 'line': line})
    for i, c in enumerate(cases):
        c['id'] = i
    exp, res = eval_cases('MC_Spectrum', cases, nparts=10, timeout=900)
    ctx.add_tlc(res, 'MC_Spectrum (Trapz, BinTrapz)')
    for c in cases:
        e = exp[c['id']]
        s = sp.real_spectrum(lentil, c['s'])
        if c['k'] == 'trapz':
            lo, hi = float(sp.rf(c['lo'])), float(sp.rf(c['hi']))
            ctx.case(('trapz', str(c['s']['w']), lo, hi))
            try:
                obs = s.integrate(lo, hi, method='trapz')
                # Simpson's rule over the same samples: a number too (0 when no sample lies inside, as for the trapezoid rule)
                obs_s = s.integrate(lo, hi, method='simps')
                nin = sum(1 for x in s.wave if lo <= x <= hi)
                if not np.isfinite(obs_s) or (nin <= 1 and obs_s != 0):
                    raise ArithmeticError('simps over %d samples gives %r' % (nin, obs_s))
            except Exception as ex:
                ctx.violation({'kind': 'integrate-raises', 'error': type(ex).__name__}, {'spectrum': c['s'], 'lo': lo, 'hi': hi, 'error': repr(ex)[:200]}, case={'case': c})
                continue
            ev = float(sp.rf(e['val']))
            ex_ = float(sp.rf(e['exact']))          # = ev when both bounds are samples; between samples either reading is accepted
            if abs(obs - ev) > 1e-10 * (1 + abs(ev)) and abs(obs - ex_) > 1e-10 * (1 + abs(ex_)):
                ctx.violation({'kind': 'integrate-trapz'}, {'spectrum': c['s'], 'lo': lo, 'hi': hi, 'expected': ev, 'or_with_partial_intervals': ex_, 'observed': float(obs)},
                              case={'case': c})
            # values stored as small unsigned integers or booleans are the same values: 64 x (non-negative quarter-integers) fits uint8
            vq = [sp.rf(x) for x in c['s']['v']]
            if all(x >= 0 for x in vq):
                for dt, scale_ in ((np.uint8, 64), (np.int16, 64), (bool, None)):
                    vals = np.array([float(x) for x in vq])
                    arr = (vals > 0) if dt is bool else np.round(vals * scale_).astype(dt)
                    si = lentil.radiometry.Spectrum(np.asarray(s.wave, dtype=float), arr, waveunit='nm', valueunit=None)
                    sf = lentil.radiometry.Spectrum(np.asarray(s.wave, dtype=float), arr.astype(float), waveunit='nm', valueunit=None)
                    for m in ('trapz', 'simps', 'trapz-all', 'simps-all'):
                        try:
                            if m.endswith('-all'):
                                # ... and with no bounds given at all (the whole spectrum)
                                a_, b_ = si.integrate(method=m[:-4]), sf.integrate(method=m[:-4])
                                if abs(sf.integrate(method=m[:-4]) - sf.integrate(float(sf.wave[0]), float(sf.wave[-1]), method=m[:-4])) > 1e-9 * (1 + abs(b_)):
                                    a_ = float('nan')
                            else:
                                a_, b_ = si.integrate(lo, hi, method=m), sf.integrate(lo, hi, method=m)
                        except Exception:
                            continue                      # (Simpson on fewer than three samples etc.: refused for both)
                        if not abs(a_ - b_) <= 1e-9 * (1 + abs(b_)):
                            ctx.violation({'kind': 'integrate-depends-on-value-dtype', 'method': m, 'dtype': np.dtype(dt).kind},
                                          {'spectrum': c['s'], 'values': arr.tolist(), 'as_float': float(b_), 'observed': float(a_)}, case={'case': c})
            # the same spectrum written in another wavelength unit (numbers of the order 1e-7 in metres): same integral, rescaled
            for u in ('m', 'um', 'angstrom'):
                fu = 10.0 ** (-9 - sp.EXP[u])
                su = lentil.radiometry.Spectrum(np.asarray(s.wave, dtype=float) * fu, np.array(s.value, dtype=float), waveunit=u, valueunit=None)
                ou = su.integrate(lo * fu, hi * fu, method='trapz')
                if abs(ou - ev * fu) > 1e-9 * fu * (1 + abs(ev)) and abs(ou - ex_ * fu) > 1e-9 * fu * (1 + abs(ex_)):
                    ctx.violation({'kind': 'integrate-trapz', 'waveunit': u}, {'spectrum': c['s'], 'lo': lo * fu, 'hi': hi * fu, 'expected': ev * fu, 'observed': float(ou)},
                                  case={'case': c})
                    break
            full = s.integrate(method='trapz')
            if abs(full - float(sp.rf(e['all']))) > 1e-10 * (1 + abs(full)):
                ctx.violation({'kind': 'integrate-trapz-default-bounds'}, {'spectrum': c['s']}, case={'case': c})
            # linearity in the values for both rules (relational), with a real and with a complex factor
            for m in ('trapz', 'simps'):
                import warnings as _w
                with _w.catch_warnings():
                    _w.simplefilter('ignore')
                    sc_ = lentil.radiometry.Spectrum(s.wave, (2 - 3j) * np.asarray(s.value, dtype=float), waveunit='nm', valueunit=None)
                    ic_, ir_ = sc_.integrate(method=m), s.integrate(method=m)
                if abs(ic_ - (2 - 3j) * ir_) > 1e-9 * (1 + abs(ir_)):
                    ctx.violation({'kind': 'integrate-not-linear', 'method': m, 'factor': 'complex'}, {'spectrum': c['s'], 'observed': str(ic_), 'expected': str((2 - 3j) * ir_)}, case={'case': c})
                s3 = lentil.radiometry.Spectrum(s.wave, 3 * s.value + 0.0, waveunit='nm', valueunit=None)
                if abs(s3.integrate(method=m) - 3 * s.integrate(method=m)) > 1e-9 * (1 + abs(s.integrate(method=m))):
                    ctx.violation({'kind': 'integrate-not-linear', 'method': m}, {'spectrum': c['s']}, case={'case': c})
        else:
            centres = [float(sp.rf(x)) for x in c['c']]
            ebins = np.array([float(sp.rf(x)) for x in e['bins']])
            ctx.case(('bin', str(c['s']['w']), str(centres), c['ends']))
            # the same centres written as floats and as integers (all centres of this domain are whole nanometres)
            for m, ctype in (('trapz', 'float'), ('simps', 'float'), ('trapz', 'int'), ('simps', 'int')):
                centres = [float(sp.rf(x)) for x in c['c']] if ctype == 'float' else [int(sp.rf(x)) for x in c['c']]
                sig = {'kind': 'bin', 'method': m, 'ends': c['ends']}
                try:
                    b = s.bin(centres, interp_method=m, ends=c['ends'], preserve_power=False, waveunit='nm')
                    s.bin(centres, interp_method=m, ends=c['ends'], preserve_power=True, waveunit='nm')
                    s.integrate(min(centres), max(centres), method=m)
                except Exception as ex:
                    ctx.violation(dict(sig, kind='bin-raises', error=type(ex).__name__), {'spectrum': c['s'], 'centres': centres, 'error': repr(ex)[:200]}, case={'case': c})
                    continue
                if ctype == 'int':
                    sig['centres'] = 'integer-typed'
                    sig['edges_between_integers'] = c['odd_spacing']
                if len(b) != len(centres):
                    ctx.violation(dict(sig, kind='bin-count'), {'n': len(b)}, case={'case': c})
                    continue
                if not np.all(np.isfinite(b)) or np.any(b < -1e-12):
                    ctx.violation(dict(sig, kind='bin-negative'), {'bins': b}, case={'case': c})
                if c['linear_in_bins'] and not np.allclose(b, ebins, rtol=1e-10, atol=1e-12):
                    ctx.violation(dict(sig, kind='bin-value'), {'spectrum': c['s'], 'centres': centres, 'expected': ebins, 'observed': b},
                                  case={'case': c})
                bp = s.bin(centres, interp_method=m, ends=c['ends'], preserve_power=True, waveunit='nm')
                span = s.integrate(min(centres), max(centres), method=m)
                if not np.all(np.isfinite(bp)) or abs(bp.sum() - span) > 1e-9 * (1 + abs(span)) or np.any(bp < -1e-12):
                    ctx.violation(dict(sig, kind='bin-preserve-power', bins_all_zero=bool(not np.any(bp)), spectrum_zero_at_every_edge_and_centre=bool(c.get('line'))),
                                  {'sum': float(bp.sum()), 'integral_over_span': float(span)}, case={'case': c})
                d_ = centres[1] - centres[0]
                e_lo, e_hi = (centres[0] - d_ / 2, centres[-1] + d_ / 2) if c['ends'] == 'symmetric' else (centres[0], centres[-1])
                interior = float(s.wave[0]) < e_lo and e_hi < float(s.wave[-1])
                # (an outer bin edge that coincides with an end of the spectrum's range is an inside/outside tie once the numbers
                #  have been converted inexactly: only set-ups whose edges lie strictly inside the range are compared across units)
                if ctype == 'float' and interior:
                    # centres given in another unit than the spectrum's own (waveunit=): the same bins, in that unit
                    u = ('um', 'angstrom', 'm')[c['id'] % 3]
                    fu = 10.0 ** (-9 - sp.EXP[u])
                    cu = [x * fu for x in centres]
                    try:
                        bu = s.bin(cu, interp_method=m, ends=c['ends'], preserve_power=False, waveunit=u)
                        bpu = s.bin(cu, interp_method=m, ends=c['ends'], preserve_power=True, waveunit=u)
                        oku = np.allclose(bu, b * fu, rtol=1e-9, atol=1e-12 * fu) and np.allclose(bpu, bp * fu, rtol=1e-9, atol=1e-12 * fu)
                    except Exception as ex:
                        oku = False
                    if s.waveunit != 'nm' or not oku:
                        ctx.violation(dict(sig, kind='bin-in-another-unit', waveunit=u), {'centres': cu}, case={'case': c})
                if m == 'trapz' and abs(span - float(sp.rf(e['span']))) > 1e-10 * (1 + abs(span)):
                    ctx.violation(dict(sig, kind='integrate-span'), {}, case={'case': c})
    return len(cases)


def centre_sets_leaf(ctx, lentil, rng):
    """bins depend on ALL their centres: two centre sets of the same size with the same first and last centre but different interior
    centres, binned one after the other in one process (trapezoid rule: exact for a spectrum that is linear over the whole range)"""
    n = 0
    for _ in range(15):
        a0, b0 = rng.choice((0.0, 1.5)), rng.choice((0.01, 0.004))
        wv = np.arange(200., 901., 1.)                  # (wide enough for the outermost symmetric bin edges)
        sl = lentil.radiometry.Spectrum(wv, a0 + b0 * (wv - 380.) + 2.0, waveunit='nm', valueunit=None)
        k = rng.randint(4, 6)
        sets = []
        for _ in range(2):
            inner = sorted(rng.sample(range(420, 680, 5), k - 2))
            sets.append(np.array([400.] + [float(x) for x in inner] + [700.]))
        for ends in ('symmetric', 'inside'):
            for cs in sets:
                n += 1
                ctx.case(('centre-sets', ends, str(cs.tolist())))
                mids = (cs[:-1] + cs[1:]) / 2
                edges = np.concatenate([[cs[0] - (cs[1] - cs[0]) / 2], mids, [cs[-1] + (cs[-1] - cs[-2]) / 2]]) if ends == 'symmetric' else np.concatenate([[cs[0]], mids, [cs[-1]]])
                f = lambda x: (a0 + 2.0) * x + b0 * (x - 380.) ** 2 / 2
                expect = f(edges[1:]) - f(edges[:-1])
                got = np.asarray(sl.bin(cs, interp_method='trapz', ends=ends, preserve_power=False, waveunit='nm'), dtype=float)
                if got.shape != expect.shape or not np.allclose(got, expect, rtol=1e-9, atol=1e-12):
                    ctx.violation({'kind': 'bin-value', 'method': 'trapz', 'ends': ends, 'centres': 'non-uniform, second set with the same ends'},
                                  {'centres': cs.tolist(), 'expected': expect, 'observed': got}, case=None)
    return n


def narrow_grid_leaf(ctx, lentil, rng):
    """a wavelength grid (or a set of bin centres) held in half / single precision, every value exactly representable, is the same grid:
    crop keeps the same samples, integrate and trim give what the float64 twin gives, bins have the same edges"""
    import warnings
    n = 0
    S = lentil.radiometry.Spectrum
    for gdt in (np.float16, np.float32):
        for _ in range(6):
            g0 = rng.choice((640.0, 500.0, 1100.0))
            grid = g0 + 0.5 * np.arange(40)
            if not np.array_equal(grid.astype(gdt).astype(float), grid):
                continue
            vals = 1.0 + (np.arange(40) % 7) * 0.25
            lo, hi = g0 + 5.2, g0 + 10.3                           # bounds that are NOT representable in half precision near 640
            a, b = S(grid.astype(gdt), vals.copy(), waveunit='nm', valueunit=None), S(grid.copy(), vals.copy(), waveunit='nm', valueunit=None)
            n += 1
            ctx.case(('narrow-grid', np.dtype(gdt).name, g0))
            with warnings.catch_warnings():
                warnings.simplefilter('ignore')
                ia, ib = [a.integrate(lo, hi, method=m_) for m_ in ('trapz', 'simps')], [b.integrate(lo, hi, method=m_) for m_ in ('trapz', 'simps')]
                fa, fb = a.integrate(method='trapz'), b.integrate(method='trapz')
                a.crop(lo, hi)
                b.crop(lo, hi)
            ok = np.allclose(ia, ib, rtol=1e-12) and abs(fa - fb) <= 1e-12 * abs(fb) and len(np.atleast_1d(a.wave)) == len(np.atleast_1d(b.wave)) and \
                np.array_equal(np.asarray(a.wave, dtype=float), b.wave)
            if not ok:
                ctx.violation({'kind': 'grid-storage-type-changes-the-result', 'dtype': np.dtype(gdt).name},
                              {'bounds': [lo, hi], 'integrals': [ia, ib], 'kept': [np.asarray(a.wave, dtype=float).tolist(), b.wave.tolist()]}, case=None)
        # trim: the ratio to the maximum is compared with the tolerance in double precision
        vt = np.array([0, 1.000977, 10008, 3, 0], dtype=np.float16)
        for tol in (1e-4, 1e-3):
            sa, sb = S(np.arange(500., 505.), vt.astype(gdt), waveunit='nm', valueunit=None), S(np.arange(500., 505.), vt.astype(float), waveunit='nm', valueunit=None)
            sa.trim(tol)
            sb.trim(tol)
            n += 1
            ctx.case(('narrow-values-trim', np.dtype(gdt).name, tol))
            if not np.array_equal(np.asarray(sa.wave, dtype=float), sb.wave):
                ctx.violation({'kind': 'grid-storage-type-changes-the-result', 'dtype': np.dtype(gdt).name, 'op': 'trim'}, {'tol': tol}, case=None)
        # bin centres in a narrow float type
        for cs in (np.array([500.125, 500.25, 500.375, 500.5, 500.625]), np.array([1100., 1101., 1102., 1103.])):
            if not np.array_equal(cs.astype(gdt).astype(float), cs):
                continue
            wv = np.arange(400., 1300., 0.125) if cs[0] < 1000 else np.arange(1000., 1300., 0.25)
            sl = S(wv, 0.01 * wv, waveunit='nm', valueunit=None)
            for m_ in ('trapz', 'simps'):
                for ends in ('symmetric', 'inside'):
                    n += 1
                    ctx.case(('narrow-centres', np.dtype(gdt).name, m_, ends, float(cs[0])))
                    ba = np.asarray(sl.bin(cs.astype(gdt), interp_method=m_, ends=ends, preserve_power=False, waveunit='nm'), dtype=float)
                    bb = np.asarray(sl.bin(cs, interp_method=m_, ends=ends, preserve_power=False, waveunit='nm'), dtype=float)
                    if ba.shape != bb.shape or not np.allclose(ba, bb, rtol=1e-12, atol=0):
                        ctx.violation({'kind': 'bin-centres-storage-type-changes-the-bins', 'dtype': np.dtype(gdt).name, 'method': m_, 'ends': ends},
                                      {'centres': cs.tolist(), 'float64': bb, 'observed': ba}, case=None)
    return n


def one_sample_leaf(ctx, lentil, rng):
    """a spectrum cropped / trimmed down to ONE sample keeps that sample under resample, in whatever type its numbers are stored"""
    import warnings
    n = 0
    for _ in range(40):
        k = rng.randint(3, 8)
        w0 = rng.choice((400, 500, 610))
        vals = [rng.randint(1, 12) / 4 for _ in range(k)]
        keep = rng.randrange(1, k - 1)
        for wdt, vdt in ((float, float), (float, np.float32), (float, np.float16), (np.float32, float), (np.int32, float), (float, complex)):
            s = lentil.radiometry.Spectrum(np.arange(w0, w0 + 10 * k, 10).astype(wdt), np.array(vals).astype(vdt), waveunit='nm', valueunit=None)
            n += 1
            ctx.case(('one-sample', k, w0, keep, np.dtype(wdt).name, np.dtype(vdt).name))
            try:
                with warnings.catch_warnings():
                    warnings.simplefilter('ignore')
                    s.crop(w0 + 10 * keep - 4, w0 + 10 * keep + 4)
                    kept = (len(np.atleast_1d(s.wave)), complex(np.atleast_1d(s.value)[0]))
                    s.resample(np.array([w0 + 10 * keep - 10.0, w0 + 10 * keep, w0 + 10 * keep + 10.0]), fill_value=0.0, waveunit='nm')
                    got = np.atleast_1d(s.value)
                ok = kept == (1, complex(vals[keep])) and len(got) == 3 and got[0] == 0 and got[2] == 0 and abs(complex(got[1]) - vals[keep]) <= 1e-6 * vals[keep]
                err = None
            except Exception as ex:
                ok, err, got = False, repr(ex)[:160], None
            if not ok:
                ctx.violation({'kind': 'resample-alters-the-retained-sample', 'samples': 1, 'wave_dtype': np.dtype(wdt).name, 'value_dtype': np.dtype(vdt).name},
                              {'value_kept_by_crop': vals[keep], 'after_resample': None if got is None else [str(x) for x in got], 'error': err}, case=None)
    return n


# ------------------------------------------------------------------------------------------ resizing programs
def record_programs(lentil, rng, nprog, nsteps):
    events = []
    offl = 0
    for tid in range(nprog):
        w, v = rand_spec(rng, nonneg=True)
        # one program in seven follows a script: trim, put back as many samples as were cut (other content, same length), trim
        # again with the same tolerance - what was kept the first time says nothing about what is kept the second time
        script = None
        if rng.random() < 0.15:
            w, v = rand_spec(rng, uniform=True, nonneg=True, n=rng.randint(5, 7))
            nz = rng.choice((1, 2))
            v = [Fr(0)] * nz + [Fr(rng.randint(2, 12), 4) for _ in v[nz:]]
            script = {'acts': ['trim', 'pad', 'trim', 'crop'], 'tol': Fr(1, 10000), 'add': nz}
        s = sp.real_spectrum(lentil, sp.spec_json('nm', rng.choice((None, 'photlam')), w, v))
        for k in range(nsteps):
            pre = sp.observed_json(s)
            if pre is None:
                offl += 1
                break
            wv = [sp.rf(x) for x in pre['w']]
            f = Fr(10) ** (-9 - pre['e'])              # one nanometre in the spectrum's current unit
            # after an inexact unit conversion the floats differ from the rationals by rounding: comparisons of a bound with a
            # sample it equals are then float ties (do-not-care), so such bounds are only used on exact states
            inexact = any(float(a) != b for a, b in zip(wv, np.atleast_1d(s.wave))) or \
                any(float(sp.rf(a)) != b for a, b in zip(pre['v'], np.atleast_1d(s.value)))
            z0 = () if inexact else (0,)

            def detie(val):
                return val + f / 8 if (inexact and val in wv) else val
            act = rng.choice(('crop', 'crop', 'trim', 'pad', 'append', 'resample', 'resample', 'towave'))
            if script is not None and k < len(script['acts']):
                act = script['acts'][k]
            ev = {'id': len(events), 'tid': tid, 'seq': k, 'act': act, 'pre': pre}
            try:
                if act == 'crop':
                    lo = rng.choice(wv) + f * rng.choice(z0 + (Fr(-1, 4), Fr(1, 4), -3))
                    hi = rng.choice(wv) + f * rng.choice(z0 + (Fr(-1, 4), Fr(1, 4), 3))
                    lo, hi = detie(lo), detie(hi)
                    if hi < lo:
                        lo, hi = hi, lo
                    ev.update(lo=sp.rj(lo), hi=sp.rj(hi))
                    s.crop(float(lo), float(hi))
                elif act == 'trim':
                    tol = rng.choice((Fr(1, 10000), Fr(1, 4), Fr(1, 2))) if not inexact else Fr(1, 10000)
                    if script is not None:
                        tol = script['tol']
                    # leading / trailing small values so that trimming has something to do
                    ev.update(tol=sp.rj(tol))
                    s.trim(float(tol))
                elif act == 'pad':
                    left = wv[0] - f * rng.choice((0, 1, 2, 3, Fr(5, 2), -1))          # -1: an end INSIDE the range
                    right = wv[-1] + f * rng.choice((0, 1, 2, 4, Fr(3, 2), -1))
                    vals = (Fr(rng.choice((0, 1))), Fr(rng.choice((0, 2))))
                    if script is not None and k < len(script['acts']):
                        # (the uniform 2 nm grid continued on the right by as many zero samples as were cut on the left)
                        left, right, vals = wv[0], wv[-1] + 2 * f * script['add'], (Fr(0), Fr(0))
                    ev.update(ends=[sp.rj(left), sp.rj(right)], vals=[sp.rj(vals[0]), sp.rj(vals[1])])
                    s.pad((float(left), float(right)), sampling=rng.choice(('min', float(f), float(f / 2))), values=(float(vals[0]), float(vals[1])))
                elif act == 'append':
                    start = wv[-1] + f * rng.choice((1, 2, Fr(1, 2), 0, -1))             # 0 / -1: overlapping -> must be refused or stay well-formed
                    n2 = rng.randint(1, 3) if rng.random() < 0.7 else len(wv)          # equal length exercises the elementwise comparison
                    w2 = [start + 2 * f * j for j in range(n2)]
                    v2 = [Fr(rng.randint(0, 8), 4) for _ in range(n2)]
                    o = sp.spec_json(sp.UNIT_OF[pre['e']], None if pre['vu'] == 'none' else pre['vu'], w2, v2)
                    ev.update(o=o)
                    s.append(sp.real_spectrum(lentil, o))
                elif act == 'resample':
                    kind = rng.choice(('ok', 'ok', 'unsorted', 'duplicate', 'nonpositive'))
                    base = sorted({rng.choice(wv) + f * rng.choice(z0 + (Fr(1, 4), Fr(1, 2), -1, 2)) for _ in range(rng.randint(2, 5))})
                    if len(base) < 2:
                        base = [wv[0], wv[0] + f]
                    x = sorted({detie(t) for t in base})
                    if len(x) < 2:
                        x = [wv[0] + f / 8, wv[0] + f]
                    if kind == 'unsorted':
                        x = x[::-1]
                    elif kind == 'duplicate':
                        x = x + [x[-1]]
                    elif kind == 'nonpositive':
                        x = [Fr(0)] + x
                    fill = Fr(rng.choice((0, 1)))
                    ev.update(x=[sp.rj(t) for t in x], fill=sp.rj(fill))
                    s.resample(np.array([float(t) for t in x]), fill_value=float(fill), waveunit=sp.UNIT_OF[pre['e']])
                elif act == 'towave':
                    u2 = rng.choice(('nm', 'um', 'angstrom'))
                    ev.update(e2=sp.EXP[u2])
                    s.to(u2)
                ev['err'] = 'none'
            except Exception as ex:
                ev['err'] = type(ex).__name__
            post = sp.observed_json(s)
            if post is None:
                # off the rational lattice or lengths differ: record raw lengths so that well-formedness is still judged
                wl, vl = np.atleast_1d(s.wave), np.atleast_1d(s.value)
                if len(wl) != len(vl):
                    post = {'e': pre['e'], 'vu': pre['vu'], 'w': [[1, 1]] * len(wl), 'v': [[1, 1]] * len(vl)}
                    ev['post'] = post
                    events.append(ev)
                offl += 1
                break
            ev['post'] = post
            events.append(ev)
            if len(post['w']) != len(post['v']) or len(post['w']) == 0:
                break
    return events, offl


def validate(ctx, events, nparts=10):
    os.makedirs(WORK, exist_ok=True)
    from concurrent.futures import ThreadPoolExecutor
    files = []
    for p in range(nparts):
        part = events[p::nparts]
        if not part:
            continue
        fn = os.path.join(WORK, f'trace_c15_{uuid.uuid4().hex[:10]}.json')
        with open(fn, 'w') as f:
            json.dump(part, f)
        files.append((fn, len(part)))

    def one(x):
        fn, n = x
        r = run_tlc('Trace_C15', env={'TRACE_FILE': fn}, workers=1, timeout=1800)
        if len(r.emits) != 1 or r.emits[0]['n'] != n:
            raise TLCError('trace not consumed')
        return r
    try:
        with ThreadPoolExecutor(max_workers=10) as ex:
            rs = list(ex.map(one, files))
    finally:
        for fn, _ in files:
            os.unlink(fn)
    bad = []
    for r in rs:
        ctx.states += r.distinct
        ctx.transitions += r.generated
        bad += r.emits[0]['bad']
    ctx.tlc_runs.append({'model': f'Trace_C15 ({len(events)} events)', 'distinct_states': sum(r.distinct for r in rs),
                         'states_generated': sum(r.generated for r in rs), 'wall_s': round(max(r.wall for r in rs), 2)})
    return bad


def run(ctx):
    lentil = import_lentil()
    rng = random.Random(1515 + ctx.seed)
    q = ctx.tier == 'quick'
    ncases = integration_and_binning(ctx, lentil, rng)
    ctx.extra['one_sample_resample_cases'] = one_sample_leaf(ctx, lentil, rng)
    ctx.extra['narrow_grid_cases'] = narrow_grid_leaf(ctx, lentil, rng)
    ctx.extra['non_uniform_centre_set_cases'] = centre_sets_leaf(ctx, lentil, rng)
    events, offl = record_programs(lentil, rng, 400 if q else 4000, 4)
    bad = validate(ctx, events)
    byid = {e['id']: e for e in events}
    for eid, clauses in bad:
        e = byid[eid]
        for cl in clauses:
            ctx.violation({'kind': cl, 'act': e['act'], 'err': e['err'] != 'none'},
                          {'event': e, 'program_so_far': [x['act'] for x in events if x['tid'] == e['tid'] and x['seq'] <= e['seq']]},
                          case={'event': e})
    import copy
    ev2 = copy.deepcopy([e for e in events if e['act'] == 'crop' and e['err'] == 'none' and len(e['post']['v']) > 0][:3])
    ev2[1]['post']['v'][0] = [ev2[1]['post']['v'][0][0] + 1, ev2[1]['post']['v'][0][1]]
    for i, e in enumerate(ev2):
        e['id'] = i
    b2 = validate(ctx, ev2, nparts=1)
    ctx.extra['binding_selftest_corrupted_event_rejected'] = (len(b2) == 1 and b2[0][0] == 1)
    if not ctx.extra['binding_selftest_corrupted_event_rejected']:
        ctx.machinery_errors.append('Trace_C15 accepted a corrupted event')
    acts = {}
    for e in events:
        acts[(e['act'], e['err'] != 'none')] = acts.get((e['act'], e['err'] != 'none'), 0) + 1
        ctx.case(json.dumps({k: v for k, v in e.items() if k not in ('id', 'tid', 'seq', 'post')}, sort_keys=True)[:500])
    ctx.traces += len({e['tid'] for e in events}) + ncases
    ctx.skipped['programs cut short because a state left the rational lattice'] = offl
    ctx.extra['events_by_action_and_refusal'] = {f'{a}{"-refused" if r else ""}': n for (a, r), n in sorted(acts.items())}
    ctx.sample(events[0], maxn=1)
    ctx.sample(next(e for e in events if e['err'] != 'none'), maxn=2)
    ctx.rule = ('integration / binning: seeded spectra on non-uniform grids (values may be negative for integration), bounds at and between '
                'samples, bins whose edges carry the kinks; resizing: programs of 4 random editing calls incl. failure paths (non-increasing, '
                'duplicate or non-positive resample grids, overlapping append, pad ends inside the range); distinct by call and pre-state')
    ctx.assumptions += ['data are dyadic so every state is an exact rational; Simpson binning is compared on spectra linear across each bin (where '
                        'it is exact); cubic/quadratic sampling is outside the model']


def replay(ctx, rec):
    e = dict(rec['case']['event'])
    e['id'] = 0
    for eid, clauses in validate(ctx, [e], nparts=1):
        for cl in clauses:
            ctx.violation({'kind': cl, 'act': e['act'], 'err': e['err'] != 'none'}, {'event': e}, case={'event': e})
