"""C14 finding 3 (low severity): the speed of light used by Planck's law and by
every photlam <-> wlam/flam conversion is 299792456 m/s instead of the exact SI
value 299792458 m/s, so the Stefan-Boltzmann total and Wien's peak are those of
a universe with a different c (relative error 1.3e-8 resp. 6.7e-9 -- four orders
of magnitude above rounding, although below the uncertainty of the CODATA-2010
h and k that the module uses)."""
import os, sys
sys.path.insert(0, os.environ.get('LENTIL_REPO', '.'))
import warnings
import numpy as np
import lentil.radiometry as R
warnings.simplefilter('ignore')   # exp overflow in the far Wien tail (gives the correct limit 0)

C_SI = 299792458            # exact by definition of the metre
h, k = R.H, R.K             # take the library's own h and k so that only c is tested
T = 5000.

lam = np.geomspace(2.9e-3 / T / 200, 2.9e-3 / T * 3000, 400001)       # m
total = np.trapz(R.planck_exitance(lam, T, 'm', 'wlam'), lam)

def sigma(c):
    return 2 * np.pi**5 * k**4 / (15 * h**3 * c**2)

e_si = total / (sigma(C_SI) * T**4) - 1
e_lib = total / (sigma(R.C) * T**4) - 1
print("lentil.radiometry.C =", R.C, " SI value =", C_SI)
print(f"integral of planck_exitance / (sigma T^4) - 1 with sigma from c=299792458: {e_si:.3e}")
print(f"integral of planck_exitance / (sigma T^4) - 1 with sigma from c=299792456: {e_lib:.3e}")

# photon <-> energy conversion of a monochromatic flux: E = N h c / lambda
w = np.array([5e-7])
e_conv = R.Photlam.to(np.array([1.0]), 'wlam', w)[0] / (h * C_SI / w[0]) - 1
print(f"Photlam->Wlam factor / (h c / lambda) - 1 with c=299792458: {e_conv:.3e}")

if abs(e_si) > 5e-9 and abs(e_lib) < 1e-9 and R.C != C_SI:
    print("VIOLATION: the Planck functions integrate to the Stefan-Boltzmann total of "
          "c = 299792456 m/s, not of the speed of light (typo in the constant C).")
    sys.exit(1)
print("ok")
sys.exit(0)
