"""C19 - pixel, jitter and smear blurs are flux-preserving convolutions on any shape.

A: TLC checks on Blur.tla, for every case, that the argument grid of each transfer function is zero at DC (unit
   gain), Hermitian-symmetric except at unpaired Nyquist bins of even axes (which it enumerates - they define the
   deviation the statement allows), that physical units with pixel scale and oversampling are equivalent to samples,
   and that zero extent gives the identity.
B: TLC emits the exact rational argument every frequency bin feeds to the leaf function (sinc / Gauss); the harness
   evaluates the leaves and compares lentil's detector.pixel, jitter and smear with the exact circular convolution:
   impulse responses at every position of images of shapes {5,6,7,8}^2 (square and not), non-negativity, shape,
   commutation with circular translation, totals, identity at zero extent, unit equivalence.
"""
import itertools
import math
import random
import warnings
from fractions import Fraction as Fr

import numpy as np

from harness.core import import_lentil
from harness.tlc import eval_cases
from harness import spectra as sp

LEVEL = 'model_checking'
ANGLES = [(Fr(0), Fr(1)), (Fr(1), Fr(0)), (Fr(3, 5), Fr(4, 5)), (Fr(4, 5), Fr(3, 5)), (Fr(-3, 5), Fr(4, 5)), (Fr(0), Fr(-1)), (Fr(-1), Fr(0))]


def run(ctx):
    lentil = import_lentil()
    rng = random.Random(1919 + ctx.seed)
    nr = np.random.default_rng(1919 + ctx.seed)
    q = ctx.tier == 'quick'
    shapes = [(r, c) for r in (5, 6, 7, 8) for c in (5, 6, 7, 8)]
    cases = []
    for (R, C) in (rng.sample(shapes, 9) if q else shapes):
        for _ in range(2 if q else 6):
            sn, cs = rng.choice(ANGLES)
            cases.append({'id': len(cases), 'R': R, 'C': C, 'os': rng.choice((1, 2, 3)),
                          'scale': sp.rj(rng.choice((Fr(1, 8), Fr(1, 4), Fr(1, 2), Fr(3, 4), Fr(1), Fr(5, 4)))),      # in units of px below
                          'dist': sp.rj(rng.choice((Fr(1, 2), Fr(1), Fr(3, 2), Fr(2)))),
                          'px': sp.rj(rng.choice((Fr(1), Fr(2), Fr(1, 2)))),
                          'sn': sp.rj(sn), 'cs': sp.rj(cs)})
    exp, res = eval_cases('MC_C19', cases, nparts=8, timeout=900)
    ctx.add_tlc(res, 'MC_C19 (argument grids, DC / Hermitian / unit / zero-extent theorems)')
    f = lambda x: float(sp.rf(x))
    for c in cases:
        e = exp[c['id']]
        R, C, os_ = c['R'], c['C'], c['os']
        scale, dist, px = f(c['scale']), f(c['dist']), f(c['px'])
        angle = math.degrees(math.atan2(f(c['sn']), f(c['cs'])))
        nyq = np.array(e['nyq'], dtype=bool)
        H = {
            'pixel': np.array([[np.sinc(f(a[0])) * np.sinc(f(a[1])) for a in row] for row in e['pixel']]),
            'jitter': np.array([[np.exp(-2 * np.pi ** 2 * f(a)) for a in row] for row in e['jitter']]),
            'smear': np.array([[np.sinc(f(a)) for a in row] for row in e['smear']]),
        }
        call = {
            'pixel': lambda img: lentil.detector.pixel(img, oversample=os_),
            'jitter': lambda img: lentil.jitter(img, scale, pixelscale=px, oversample=os_),
            'smear': lambda img: lentil.smear(img, dist, angle=angle, pixelscale=px, oversample=os_),
        }
        for name in ('pixel', 'jitter', 'smear'):
            sig = {'blur': name, 'square': R == C, 'even_axis': (R % 2 == 0) or (C % 2 == 0)}
            detail = {'shape': [R, C], 'oversample': os_, 'scale': scale, 'distance': dist, 'pixelscale': px, 'angle_deg': angle}
            ctx.case((name, R, C, os_, scale, dist, px, angle), nontrivial=True)
            # 1. any non-negative image: shape kept, never negative; jitter and smear keep the total
            img = nr.uniform(0, 5, size=(R, C))
            try:
                out = call[name](img)
            except Exception as ex:
                ctx.violation(dict(sig, kind=type(ex).__name__), dict(detail, error=repr(ex)[:200]), case=None)
                continue
            if out.shape != (R, C):
                ctx.violation(dict(sig, kind='shape'), dict(detail, observed=out.shape), case=None)
                continue
            if out.min() < 0:
                ctx.violation(dict(sig, kind='negative-output'), dict(detail, min=float(out.min())), case=None)
            if name != 'pixel' and abs(out.sum() - img.sum()) > 1e-10 * img.sum():
                ctx.violation(dict(sig, kind='total-not-kept'), dict(detail, before=float(img.sum()), after=float(out.sum())), case=None)
            # 1a. frames of counts (integer / unsigned / boolean samples, nested lists): the blur is the same linear map
            for frame in (np.round(img * 20).astype(np.int64), np.round(img * 20).astype(np.uint16), img > 2.5, np.round(img * 20).astype(int).tolist(),
                          np.round(img * 1000).astype(np.float16), np.round(img * 20).astype(np.float32)):
                try:
                    o_t = np.asarray(call[name](frame), dtype=float)
                    o_f = call[name](np.asarray(frame, dtype=float))
                except Exception as ex:
                    ctx.violation(dict(sig, kind=type(ex).__name__, frame_dtype=np.asarray(frame).dtype.kind), dict(detail, error=repr(ex)[:200]), case=None)
                    break
                if o_t.shape != (R, C) or not np.allclose(o_t, o_f, rtol=0, atol=1e-9 * (1 + np.abs(o_f).max())):
                    ctx.violation(dict(sig, kind='depends-on-sample-type', frame_dtype=np.asarray(frame).dtype.kind),
                                  dict(detail, max_abs_difference=float(np.abs(o_t - o_f).max()) if o_t.shape == o_f.shape else None), case=None)
                    break
            # 1a''. an empty (all-zero) frame - a dark exposure, a blank window - stays empty: finite, non-negative, total 0
            oz = np.asarray(call[name](np.zeros((R, C))), dtype=float)
            if oz.shape != (R, C) or not np.all(np.isfinite(oz)) or np.any(oz != 0):
                ctx.violation(dict(sig, kind='all-zero-frame'), dict(detail, finite=bool(np.all(np.isfinite(oz)))), case=None)
            # 1a'''. the requested angle is a number whatever its numeric type (a small numpy integer is not a half-precision angle)
            if name == 'smear' and float(angle).is_integer() and -128 <= angle <= 127:
                ref_a = lentil.smear(img, dist, angle=float(angle), pixelscale=px, oversample=os_)
                for atype in (np.int8, np.int16, np.int32, np.float32, int):
                    o_a = lentil.smear(img, dist, angle=atype(angle), pixelscale=px, oversample=os_)
                    if not np.allclose(o_a, ref_a, rtol=0, atol=1e-6 * (1 + np.abs(ref_a).max())):
                        ctx.violation(dict(sig, kind='depends-on-angle-type', angle_type=np.dtype(atype).name if atype is not int else 'int'),
                                      dict(detail, max_abs_difference=float(np.abs(o_a - ref_a).max())), case=None)
                        break
            # 1a'. a blur is linear: faint frames (1e-15 of a count) and bright ones (1e12) are blurred like any other
            for kmag in (1e-15, 1e-12, 1e12):
                o_k = call[name](img * kmag)
                if not np.allclose(o_k / kmag, out, rtol=1e-9, atol=1e-12 * (1 + np.abs(out).max())):
                    ctx.violation(dict(sig, kind='not-linear-in-magnitude', magnitude=kmag),
                                  dict(detail, total_in=float(img.sum()), total_out_over_k=float(o_k.sum() / kmag)), case=None)
                    break
            # 1b. sparse frames (point sources on an empty background): ringing of the kernel goes negative before abs()
            sp_img = np.zeros((R, C))
            for _ in range(rng.randint(1, 3)):
                sp_img[rng.randrange(R), rng.randrange(C)] += rng.choice((1.0, 3.0, 10.0))
            osp = call[name](sp_img)
            if osp.min() < 0:
                ctx.violation(dict(sig, kind='negative-output'), dict(detail, min=float(osp.min()), frame='sparse'), case=None)
            if name != 'pixel' and abs(osp.sum() - sp_img.sum()) > 1e-10 * sp_img.sum():
                ctx.violation(dict(sig, kind='total-not-kept'), dict(detail, before=float(sp_img.sum()), after=float(osp.sum()), frame='sparse'), case=None)
            # 2. commutation with circular translation
            sh = (rng.randrange(R), rng.randrange(C))
            out_s = call[name](np.roll(img, sh, axis=(0, 1)))
            if not np.allclose(out_s, np.roll(out, sh, axis=(0, 1)), rtol=0, atol=1e-10 * (1 + np.abs(out).max())):
                ctx.violation(dict(sig, kind='not-translation-invariant'), dict(detail, shift=sh), case=None)
            # 3. transfer function: impulse at every position on a pedestal that keeps the exact convolution non-negative
            allow = 2 * np.abs(H[name][nyq]).sum() / (R * C) if (name == 'smear' and nyq.any()) else 0.0
            positions = list(itertools.product(range(R), range(C)))
            for (pr, pc) in (rng.sample(positions, 4) if q else positions):
                im = np.full((R, C), 0.5)
                im[pr, pc] += 1.0
                conv = np.fft.ifft2(np.fft.fft2(im) * H[name]).real
                if conv.min() < 0:
                    continue
                o = call[name](im)
                if not np.abs(o - conv).max() <= 1e-10 + allow:
                    ctx.violation(dict(sig, kind='transfer-function'), dict(detail, impulse=[pr, pc], max_abs_error=float(np.abs(o - conv).max()),
                                                                          nyquist_allowance=float(allow)), case=None)
                    break
                if abs(o.sum() - im.sum()) > 1e-10 * im.sum() + allow * R * C:
                    ctx.violation(dict(sig, kind='total-not-kept-on-nonnegative-convolution'), detail, case=None)
                    break
            # 4. unit gain at zero frequency: a constant image is unchanged
            const = np.full((R, C), 2.5)
            if not np.allclose(call[name](const), const, rtol=0, atol=1e-12):
                ctx.violation(dict(sig, kind='constant-image-changed'), detail, case=None)
        # 5. zero extent = identity; physical units = samples
        img = nr.uniform(0, 5, size=(R, C))
        if not np.allclose(lentil.jitter(img, 0.0, pixelscale=px, oversample=os_), img, rtol=0, atol=1e-12):
            ctx.violation({'blur': 'jitter', 'kind': 'zero-extent-not-identity', 'square': R == C}, {'shape': [R, C]}, case=None)
        if not np.allclose(lentil.smear(img, 0.0, angle=angle, pixelscale=px, oversample=os_), img, rtol=0, atol=1e-12):
            ctx.violation({'blur': 'smear', 'kind': 'zero-extent-not-identity', 'square': R == C}, {'shape': [R, C]}, case=None)
        if not np.allclose(lentil.jitter(img, scale, pixelscale=px, oversample=os_), lentil.jitter(img, scale / px * os_, pixelscale=1, oversample=1), rtol=0, atol=1e-12):
            ctx.violation({'blur': 'jitter', 'kind': 'units-not-equivalent', 'square': R == C}, {'shape': [R, C]}, case=None)
        if not np.allclose(lentil.smear(img, dist, angle=angle, pixelscale=px, oversample=os_),
                           lentil.smear(img, dist / px * os_, angle=angle, pixelscale=1, oversample=1), rtol=0, atol=1e-12):
            ctx.violation({'blur': 'smear', 'kind': 'units-not-equivalent', 'square': R == C}, {'shape': [R, C]}, case=None)
        # 5b. the same numbers held in narrower types (a pixel size and an extent read from a single-precision header; every value
        #     used here is dyadic, hence exact in half precision): still the same extent in samples
        pxn = rng.choice((3.0, 1.5, 0.75, 5.5))        # exact in half precision, the QUOTIENT extent / pixel scale is not
        for T in (np.float32, np.float16):
            for wrap in (lambda v: v, np.asarray):
                for name, ext in (('jitter', scale), ('smear', dist)):
                    kw = {} if name == 'jitter' else {'angle': angle}
                    fn = getattr(lentil, name)
                    ref = fn(img, ext / pxn * os_, pixelscale=1, oversample=1, **kw)
                    try:
                        got = fn(img, wrap(T(ext)), pixelscale=wrap(T(pxn)), oversample=wrap(np.uint8(os_)), **kw)
                    except Exception as ex:
                        ctx.violation({'blur': name, 'kind': 'narrow-extent-refused', 'type': T.__name__}, {'shape': [R, C], 'error': repr(ex)[:200]}, case=None)
                        continue
                    if not np.allclose(got, ref, rtol=0, atol=1e-11 * (1 + np.abs(ref).max())):
                        ctx.violation({'blur': name, 'kind': 'units-not-equivalent-narrow-types', 'type': T.__name__},
                                      {'shape': [R, C], 'extent': ext, 'pixelscale': pxn, 'oversample': os_,
                                       'largest_difference': float(np.abs(got - ref).max())}, case=None)
        # 6. pixelate = pixel, then resampling to native pixels that keeps the total (anchor "pixelate = pixel then rescale(1/oversample)"):
        #    ceil(n / oversample) samples, finite, the total of the pixel blur; a frame without signal stays a frame without signal
        for frame in (img, np.zeros((R, C))):
            with warnings.catch_warnings():
                warnings.simplefilter('ignore')
                po = lentil.detector.pixelate(frame, os_)
                pb = lentil.detector.pixel(frame, os_)
            sigp = {'blur': 'pixelate', 'frame': 'random' if frame is img else 'zeros'}
            if po.shape != (-(-R // os_), -(-C // os_)):
                ctx.violation(dict(sigp, kind='shape'), {'shape': [R, C], 'oversample': os_, 'observed': list(po.shape)}, case=None)
            elif not np.all(np.isfinite(po)):
                ctx.violation(dict(sigp, kind='not-finite'), {'shape': [R, C], 'oversample': os_}, case=None)
            elif abs(po.sum() - pb.sum()) > 1e-10 * (1 + pb.sum()):
                ctx.violation(dict(sigp, kind='total-not-kept'), {'shape': [R, C], 'oversample': os_, 'expected': float(pb.sum()), 'observed': float(po.sum())}, case=None)
    ctx.traces += len(cases)
    ctx.sample({'case': cases[0], 'jitter_arguments_by_TLC_first_row': exp[0]['jitter'][0], 'nyquist_bins': exp[0]['nyq'][0]}, maxn=1)
    ctx.rule = ('image shapes in {5,6,7,8}^2 (9 seeded [all 16]) x 2 [6] parameter draws (oversample 1..3, extents in halves of a sample, pixel '
                'scales 1/2, 1, 2, directions 0, 90, 180, 270 degrees and the 3-4-5 angles); per case three blurs x (random image, translation, '
                'impulses at 4 [all] positions, constant image); distinct by (blur, shape, parameters)')
    ctx.assumptions += ['leaf functions sinc and exp are evaluated by numpy at the rational arguments TLC emits (numeric leaf)',
                        'smear on even-sized axes is compared up to the contribution of the unpaired Nyquist bins (allowance computed from the '
                        'bins TLC marks)']


def replay(ctx, rec):
    print('re-run ./check C19 with the same VERIF_SEED')
