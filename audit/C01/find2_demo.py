"""C01 finding 2: the unitary factor sqrt(|alpha_row*alpha_col|) under/overflows although
sqrt(|alpha_row|)*sqrt(|alpha_col|) (and therefore the defined result) is perfectly representable.
"""
import os
import sys

sys.path.insert(0, os.environ.get("LENTIL_REPO", "."))
import numpy as np
from lentil.fourier import dft2

f = np.arange(1, 10, dtype=complex).reshape(3, 3)   # sum = 45
bad = False
for alpha in [(1e-170, 1e-170), (1e-300, 1e-20), (1e-300, 1e-30)]:
    ar, ac = alpha
    with np.errstate(all="ignore"):
        raw = dft2(f, alpha, shape=(2, 2), unitary=False)
        uni = dft2(f, alpha, shape=(2, 2), unitary=True)
    # for such small alpha every kernel value is exp(-i*tiny) == 1 to double precision,
    # so the defining sum is sum(f) = 45 at every output sample
    assert np.allclose(raw, 45, rtol=1e-13, atol=0)
    expect = 45 * np.sqrt(abs(ar)) * np.sqrt(abs(ac))       # representable normal double
    rel = np.max(np.abs(uni - expect)) / expect
    print(f"alpha={alpha}: unitary output {uni[0,0]!r}, required {expect!r}, rel err {rel:.2e}")
    if rel > 1e-10:
        bad = True

if bad:
    print("VIOLATION: lentil/fourier.py line 101 forms the product alpha_row*alpha_col before the "
          "square root; the product underflows (to 0 or to a subnormal) so the unitary transform "
          "returns 0 / a value wrong by ~1e-6 relative instead of defining_sum*sqrt(|ar*ac|).")
    sys.exit(1)
print("no violation observed")
sys.exit(0)
