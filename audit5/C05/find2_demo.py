"""C05 finding 2: a field (or a plane) whose sampled extent is a single sample
is broadcast over the whole of the other operand when wavefront and plane are
multiplied. A pupil amplitude normalised to power p whose aperture is one
sample, followed by a unit-amplitude (pure phase) plane of m x n samples, then
images to m*n*p; a one-sample stop behind a full aperture transmits everything.

exit code 1 = violation observed, 0 = not observed
"""
import os
import sys

sys.path.insert(0, os.environ.get('LENTIL_REPO', '.'))
import numpy as np
import lentil

wl, fl, dx = 1e-6, 2.0, 1e-3
N, osamp = 18, 2                      # 1/alpha = 18 samples per axis >= 9
du = wl * fl * osamp / (N * dx)
bad = []


def totals(w):
    pin = np.sum(np.abs(w.field) ** 2)
    dft = lentil.propagate_dft(w, du, shape=N // osamp, oversample=osamp).intensity.sum()
    fft = lentil.propagate_fft(w, du, oversample=osamp).intensity.sum()
    return pin, dft, fft


p = 1.0
one = np.zeros((9, 9))
one[4, 4] = 1
one = lentil.normalize_power(one, p)                 # power p in one (central) sample
pinhole = lentil.Pupil(amplitude=one, pixelscale=dx, focal_length=fl)
screen = lentil.Pupil(amplitude=np.ones((9, 9)), opd=np.zeros((9, 9)),
                      pixelscale=dx, focal_length=fl)  # transmits everything unchanged

# (a) normalised one-sample aperture, then a unit-amplitude plane
w = lentil.Wavefront(wl) * pinhole
print('(a) after the one-sample pupil :', totals(w))
w = w * screen
t = totals(w)
print('    after the unit plane       :', t, ' (expected', p, ')')
if any(abs(v - p) > 1e-9 * p for v in t):
    bad.append('(a)')

# (b) full aperture normalised to p, then a one-sample stop: only that sample's
# share |a_k|^2 = p/81 may pass
full = lentil.Pupil(amplitude=lentil.normalize_power(np.ones((9, 9)), p),
                    pixelscale=dx, focal_length=fl)
stop = np.zeros((9, 9))
stop[2, 6] = 1
stop = lentil.Pupil(amplitude=stop, pixelscale=dx, focal_length=fl)
w = (lentil.Wavefront(wl) * full) * stop
t = totals(w)
print('(b) full aperture of power p behind a one-sample stop:', t, ' (expected', p / 81, ')')
if any(abs(v - p / 81) > 1e-9 * p for v in t):
    bad.append('(b)')

if bad:
    print('VIOLATION', bad, ': the imaged total is not the power of the normalised pupil '
          'amplitude; _mul_broadcast spreads an operand with size == 1 (a 1 x 1 sampled '
          'array) over the other operand as if it were an unsampled scalar')
    sys.exit(1)
print('no violation observed')
sys.exit(0)
