"""C01 finding 2 (lower confidence, API-level): a full-period forward transform
taken with a non-zero output `shift` cannot be inverted by idft2.

dft2 samples the spectrum at u - shift.  With alpha = 1/n and equal shapes these
are still n samples spaced 1/n, i.e. exactly one period, and the transform is
still energy conserving, so the property promises that the inverse "called with
the same sampling and the same normalisation flag recovers the input".  idft2
has no counterpart of that parameter (its own `shift` acts on the OUTPUT
coordinates of the inverse, i.e. it undoes the forward `offset`, and it has no
`offset`), so neither idft2(F, alpha) nor idft2(F, alpha, shift=shift) nor
idft2(F, alpha, shift=-shift) returns f.
"""
import os, sys
sys.path.insert(0, os.environ.get("LENTIL_REPO", "."))
import numpy as np
import lentil
from lentil.fourier import dft2, idft2

rng = np.random.default_rng(0)
m, n = 6, 9
f = rng.normal(size=(m, n)) + 1j * rng.normal(size=(m, n))
alpha = (1 / m, 1 / n)
bad = False
for unitary in (True, False):
    for shift in ((0.5, 0.25), (1, -2)):
        F = dft2(f, alpha, shift=shift, unitary=unitary)
        if unitary:
            e = np.sum(abs(F) ** 2) / np.sum(abs(f) ** 2)
            assert abs(e - 1) < 1e-12, e          # the forward transform is a full period
        errs = {
            "idft2(F, alpha)": np.max(abs(idft2(F, alpha, unitary=unitary) - f)),
            "idft2(F, alpha, shift=shift)": np.max(abs(idft2(F, alpha, shift=shift, unitary=unitary) - f)),
            "idft2(F, alpha, shift=-shift)": np.max(abs(idft2(F, alpha, shift=tuple(-s for s in shift), unitary=unitary) - f)),
        }
        # what a correct inverse gives (conjugate kernel with the same u - shift)
        R = np.arange(m) - m // 2; S = np.arange(n) - n // 2
        U = R - shift[0]; V = S - shift[1]
        g = np.exp(2j * np.pi * alpha[0] * np.outer(R, U)) @ F @ np.exp(2j * np.pi * alpha[1] * np.outer(V, S))
        g *= np.sqrt(alpha[0] * alpha[1]) if unitary else alpha[0] * alpha[1]
        print(f"unitary={unitary} shift={shift}: max|inverse - f| =",
              {k: float(f'{v:.3g}') for k, v in errs.items()},
              "| conjugate-kernel inverse:", float(f"{np.max(abs(g - f)):.3g}"))
        if min(errs.values()) > 1e-9:
            bad = True
        # control: the forward `offset` IS invertible, through idft2's shift=-offset
        off = (2, -3)
        Fo = dft2(f, alpha, offset=off, unitary=unitary)
        assert np.max(abs(idft2(Fo, alpha, shift=(-2, 3), unitary=unitary) - f)) < 1e-12

assert os.path.abspath(lentil.__file__).startswith(os.path.abspath(os.environ.get("LENTIL_REPO", ".")))
if bad:
    print("\nVIOLATION: the forward transform covered one full period (alpha=1/n, equal shapes, "
          "energy conserved) but no idft2 call with the same sampling and flag recovers the input "
          "when the forward transform used a non-zero shift.")
    sys.exit(1)
print("no violation observed")
sys.exit(0)
