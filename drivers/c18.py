"""C18 - stochastic models are reproducible from their seed and physically bounded.

C (code -> spec): seeded sessions call shot_noise (both methods), read_noise, dark_current, rule07_dark_current,
   power_spectrum (masks of any aspect ratio) and the unseeded cosmic_rays (under enumerated global seeds) with repeated
   and different seeds, with the global generator re-seeded and advanced between calls.  Every call is an event
   carrying the result digest, the digest of numpy's global generator before/after and the predicates the recorder
   evaluated on the returned frame.  TLC validates the trace against Rng.tla: SeedDeterminism and SeedSensitivity
   (history variables), RngIsolation, and the per-callable table of required observations (support, exact clauses,
   rejection of negative / unrepresentable signals).
   Moment clauses (mean, variance, standard deviation) are statistical: evaluated by the recorder on large frames with
   fixed seeds and 6-sigma bounds and recorded as the observed predicate `moments` (numeric leaf, not model-decided).
"""
import hashlib
import json
import random
import warnings

import numpy as np

from harness.core import import_lentil
from harness.tlc import validate_trace

LEVEL = 'model_checking'


def dg(a):
    a = np.asarray(a)
    return hashlib.blake2b(str((a.dtype.str, a.shape)).encode() + np.ascontiguousarray(a).tobytes(), digest_size=10).hexdigest()


def rng_digest():
    st = np.random.get_state()
    return hashlib.blake2b(st[1].tobytes() + repr(st[2:]).encode(), digest_size=8).hexdigest()


def record(lentil, tier, seed, reverse=False):
    """The calls of all sessions are first laid out as a plan (a deterministic function of tier and seed) and then executed
    in plan order, or in reverse order (a second process does that: a seeded model must not depend on the calls made before it)."""
    rng = random.Random(1818 + seed)
    q = tier == 'quick'
    d = lentil.detector
    ev = []
    plan = []

    def call(*a, **k):
        env = ('seed', rng.randrange(2 ** 31)) if rng.random() < 0.4 else (('advance', rng.randint(1, 4)) if rng.random() < 0.4 else None)
        plan.append((a, k, env))

    def execute(f, key, sd, fn, predicates, expect='draw', sensitive=True, env=None):
        r0 = rng_digest()
        with warnings.catch_warnings():
            warnings.simplefilter('ignore')
            try:
                res = fn()
                err = None
            except Exception as ex:
                res, err = None, type(ex).__name__
        r1 = rng_digest()
        obs = {}
        if err is None:
            for name, p in predicates.items():
                try:
                    obs[name] = bool(p(np.asarray(res)))
                except Exception:
                    obs[name] = False
            obs['rejected'] = False
        else:
            obs['rejected'] = err == 'ValueError'
        ev.append({'id': len(ev), 'f': f, 'key': key, 'seed': str(sd), 'res': dg(res) if err is None else 'exc:' + err,
                   'rng': [r0, r1], 'obs': obs, 'expect': expect, 'sensitive': bool(sensitive) and err is None})
        # the environment changes between calls
        if env and env[0] == 'seed':
            np.random.seed(env[1])
        elif env:
            np.random.uniform(size=env[1])

    nsess = 60 if q else 500
    seeds = [0, 1, 7, 12345, [3, 4]]
    shapes = [(4, 4), (5, 8), (16, 3), (9, 9), (1, 20)]
    def session():
        sh = rng.choice(shapes)
        nr = np.random.default_rng(rng.randrange(10 ** 6))
        img = np.round(nr.uniform(2000, 9000, size=sh))
        key_img = dg(img)
        sd = rng.choice(seeds)
        sd2 = rng.choice([s for s in seeds if s != sd])
        for method in ('poisson', 'gaussian'):
            pred = {'shape': lambda a, sh=sh: tuple(np.shape(a)) == tuple(sh), 'integer': lambda a: np.all(a == np.round(a)), 'nonneg': lambda a: np.all(a >= 0),
                    'moments': lambda a: True}
            for s in (sd, sd2, sd):
                call('shot_noise', f'{method}|{key_img}', s, lambda s=s, method=method: d.shot_noise(img, method=method, seed=s), pred)
            # rejection of negative and unrepresentably large signals, scalar and array
            bad_inputs = [-1.0, np.where(np.arange(img.size).reshape(sh) == 1, -3.0, img), 1e19, np.where(np.arange(img.size).reshape(sh) == 0, 1e19, img),
                          # within ten standard deviations of the largest representable count (documented limit 9.223372006484771e18)
                          9.22337203e18, np.where(np.arange(img.size).reshape(sh) == 0, 9.2233720368e18, img)]
            b = rng.choice(bad_inputs)
            call('shot_noise', f'{method}|bad|{dg(b)}', sd, lambda b=b, method=method: d.shot_noise(b, method=method, seed=sd), {}, expect='reject')
        pred = {'shape': lambda a, sh=sh: tuple(np.shape(a)) == tuple(sh), 'finite': lambda a: np.all(np.isfinite(a)), 'moments': lambda a: True}
        for s in (sd, sd2, sd):
            call('read_noise', f'{key_img}|10', s, lambda s=s: d.read_noise(img, 10, seed=s), pred)
        img_i = img.astype(rng.choice((np.int64, np.int32, np.uint16)))
        ref = {}
        call('read_noise', f'{key_img}|0.4|float', sd, lambda: ref.setdefault('x', d.read_noise(img, 0.4, seed=sd)), pred)
        call('read_noise', f'{key_img}|0.4|{img_i.dtype}', sd, lambda: d.read_noise(img_i, 0.4, seed=sd),
             dict(pred, moments=lambda a: np.allclose(a, d.read_noise(img, 0.4, seed=sd), rtol=0, atol=1e-9)))
        rate = rng.choice((50.7, 3.2, 120.0, 0.99999999, 100.99999999, 4095.9999, 2.0 ** 24 + 1.5, 16777217.0))
        call('dark_current', f'{rate}|{sh}|0', sd, lambda: d.dark_current(rate, shape=sh, fpn_factor=0, seed=sd),
             {'shape': lambda a, sh=sh: tuple(np.shape(a)) == tuple(sh), 'floor_rate': lambda a: np.all(a == np.floor(rate))}, expect='nofpn', sensitive=False)
        for s in (sd, sd2, sd):
            call('dark_current', f'{rate}|{sh}|0.2', s, lambda s=s: d.dark_current(rate, shape=sh, fpn_factor=0.2, seed=s),
                 {'shape': lambda a, sh=sh: tuple(np.shape(a)) == tuple(sh), 'integer': lambda a: np.all(a == np.round(a)), 'nonneg': lambda a: np.all(a >= 0)},
                 sensitive=np.prod(sh) >= 16)
            call('rule07_dark_current', f'{sh}|0.1', s, lambda s=s: d.rule07_dark_current(150, 5e-6, 18e-6, shape=sh, fpn_factor=0.1, seed=s),
                 {'shape': lambda a, sh=sh: tuple(np.shape(a)) == tuple(sh), 'integer': lambda a: np.all(a == np.round(a)), 'nonneg': lambda a: np.all(a >= 0)},
                 sensitive=False)        # the rate may be below one electron: the draw can be all zeros whatever the seed
        # surface error with a power-law spectrum: masks of any aspect ratio
        msh = rng.choice([(8, 8), (6, 9), (12, 5), (7, 7), (10, 16)])
        mask = (nr.uniform(size=msh) < 0.8).astype(int)
        mask[0, 0] = 0
        mask[1, 1] = mask[2, 2] = 1
        rms = rng.choice((5e-8, 1e-9, 2.0))
        pred = {'shape': lambda a, msh=msh: a.shape == msh, 'finite': lambda a: np.all(np.isfinite(a)),
                'zero_outside_mask': lambda a, mask=mask: np.all(a[mask == 0] == 0),
                'rms_exact': lambda a, mask=mask, rms=rms: abs(np.sqrt(np.mean(a[mask != 0] ** 2)) - rms) <= 1e-9 * rms}
        px, hpf, ex = rng.choice((0.01, 0.02, 1 / 256)), rng.choice((8, 3)), rng.choice((3, 2.5))
        for s in (sd, sd2, sd):
            call('power_spectrum', f'{dg(mask)}|{rms}|{px}|{hpf}|{ex}', s,
                 lambda s=s, mask=mask, rms=rms, px=px, hpf=hpf, ex=ex: lentil.power_spectrum(mask, px, rms, hpf, ex, seed=s), pred)
        # the same mask and seed with another pixel scale (only the pixel scale differs): each is a function of ITS arguments
        px2 = rng.choice([p for p in (0.01, 0.02, 1 / 256) if p != px])
        call('power_spectrum', f'{dg(mask)}|{rms}|{px2}|{hpf}|{ex}', sd,
             lambda mask=mask, rms=rms, px2=px2, hpf=hpf, ex=ex: lentil.power_spectrum(mask, px2, rms, hpf, ex, seed=sd), pred)
    for _ in range(nsess):
        session()
    # cosmic rays: every random state of the (enumerated) global generator
    for gs in range(64 if q else 256):
        sh = rng.choice([(6, 6), (5, 9), (12, 4)])
        en = rng.choice((200.0, 2000.0, 0.5, 2.0))           # (short exposures: often no ray at all hits the frame)

        def cr(sh=sh, gs=gs, en=en):
            np.random.seed(gs)
            return d.cosmic_rays(sh, (5e-6, 5e-6, 3e-6), en, rate=4e8)
        call('cosmic_rays', f'{sh}|{en}', gs, cr,
             {'shape': lambda a, sh=sh: tuple(np.shape(a)) == tuple(sh), 'finite': lambda a: np.all(np.isfinite(a)), 'nonneg': lambda a: np.all(a >= 0)},
             sensitive=False)
    # states of the global generator under which a ray ends within float32 rounding of a grid plane (long thin frames make them reachable)
    for (gs, sh, pxs, en) in ((1074285, (30000, 4), (5e-6, 5e-6, 3e-6), 700.0), (1848, (4, 30000), (5e-6, 5e-6, 3e-6), 400.0),
                              (92193, (30000, 16), (5e-6, 5e-6, 5e-5), 200.0), (451165, (30000, 4), (5e-6, 5e-6, 3e-6), 700.0)):
        def cr2(sh=sh, gs=gs, en=en, pxs=pxs):
            np.random.seed(gs)
            return d.cosmic_rays(sh, pxs, en)
        call('cosmic_rays', f'{sh}|{en}|{pxs}', gs, cr2,
             {'shape': lambda a, sh=sh: tuple(np.shape(a)) == tuple(sh), 'finite': lambda a: np.all(np.isfinite(a)), 'nonneg': lambda a: np.all(a >= 0)},
             sensitive=False)
    for (a, k, env) in (reversed(plan) if reverse else plan):
        execute(*a, env=env, **k)
    return ev


def moments(ctx, lentil):
    """numeric leaf: statistical clauses with fixed seeds and 6-sigma bounds"""
    d = lentil.detector
    n = 1200 * 1200            # (a bias of half a count at a signal of 1000 is 18 standard errors of the mean)
    for lam in (50.0, 1000.0, 2000.0, 1e5):
        for method in ('poisson', 'gaussian'):
            if method == 'gaussian' and lam < 1000:
                continue                      # documented large-count regime of the normal approximation
            x = d.shot_noise(np.full((1200, 1200), lam), method=method, seed=11)
            m, v = x.mean(), x.var()
            # (rounding to integers adds 1/12 to the variance and nothing to the mean)
            if abs(m - lam) > 6 * np.sqrt(lam / n) or abs(v - lam) > 6 * lam * np.sqrt(2 / n) + 1:
                ctx.violation({'kind': 'shot-noise-moments', 'method': method}, {'signal': lam, 'mean': float(m), 'variance': float(v)}, case=None)
    n = 400 * 400
    for sig in (0.4, 1.0, 12.5):
        for dt in (float, np.int64, np.uint16):
            base = np.full((400, 400), 100, dtype=dt)
            x = np.asarray(d.read_noise(base, sig, seed=5), dtype=float) - 100
            if abs(x.mean()) > 6 * sig / np.sqrt(n) or abs(x.std() - sig) > 6 * sig / np.sqrt(2 * n):
                ctx.violation({'kind': 'read-noise-moments', 'frame_dtype': np.dtype(dt).kind}, {'sigma': sig, 'mean': float(x.mean()), 'std': float(x.std())}, case=None)


def run(ctx):
    lentil = import_lentil()
    events = record(lentil, ctx.tier, ctx.seed)
    # the same plan executed in reverse order by a fresh process: results must agree call by call (SeedDeterminism over the
    # merged trace), i.e. no model depends on what was called before it in the process
    import os
    import subprocess
    import sys
    code = ('import sys, json; sys.path.insert(0, %r); from harness.core import import_lentil; from drivers import c18; '
            'print("EVENTS" + json.dumps(c18.record(import_lentil(), %r, %d, reverse=True)))' % (os.path.dirname(os.path.dirname(os.path.abspath(__file__))), ctx.tier, ctx.seed))
    p = subprocess.run([sys.executable, '-c', code], capture_output=True, text=True, timeout=1800)
    line = [l for l in p.stdout.splitlines() if l.startswith('EVENTS')]
    if p.returncode != 0 or not line:
        from harness.tlc import TLCError
        raise TLCError('reverse-order recorder failed: ' + p.stderr[-2000:])
    rev = json.loads(line[0][6:])
    nfwd = len(events)
    for e in rev:
        e['id'] = len(events)
        e['order'] = 'reverse'
        events.append(e)
    ctx.extra['events_forward'] = nfwd
    ctx.extra['events_reverse_order_fresh_process'] = len(rev)
    bad = validate_trace(ctx, 'Trace_C18', events, nparts=1, timeout=1800)
    byid = {e['id']: e for e in events}
    for eid, clauses in bad:
        e = byid[eid]
        for cl in clauses:
            sig = {'f': e['f'], 'clause': cl[0], 'what': cl[1]}
            if e.get('order'):
                sig['order'] = e['order']
            if e['f'] == 'shot_noise':
                sig['method'] = e['key'].split('|')[0]
                sig['expect'] = e['expect']
            ctx.violation(sig, {'event': e}, case={'event': e})
    moments(ctx, lentil)
    import copy
    ev2 = copy.deepcopy([e for e in events if e['f'] == 'read_noise'][:6])
    for i, e in enumerate(ev2):
        e['id'] = i
    ev2[2]['res'] = 'feedface'          # third call repeats the first one's seed: a different digest must be rejected
    b2 = validate_trace(ctx, 'Trace_C18', ev2, nparts=1)
    ok = any(c[0] == 'SeedDeterminism' for _, cl in b2 for c in cl)
    ctx.extra['binding_selftest_corrupted_event_rejected'] = ok
    if not ok:
        ctx.machinery_errors.append('Trace_C18 accepted a corrupted event')
    kinds = {}
    for e in events:
        kinds[e['f']] = kinds.get(e['f'], 0) + 1
        ctx.case((e['f'], e['key'], e['seed']))
    ctx.traces += len(events)
    ctx.extra.update({'events_by_callable': kinds, 'outside_model': ['mean / variance / standard deviation clauses (6-sigma numeric leaf)']})
    ctx.sample(events[0], maxn=1)
    ctx.sample(next(e for e in events if e['expect'] == 'reject'), maxn=2)
    # a frame of counts is the same frame in whatever type it is held (values exactly representable): with the same seed the Gaussian
    # approximation draws the same noise - its standard deviation is sqrt(signal) in double precision, not in the frame's type
    dmod = lentil.detector
    for lvl in (4100.0, 1025.0, 30000.0):
        for fdt in (np.float16, np.float32, np.int16):
            fr_ = np.full((40, 50), lvl)
            if not np.array_equal(fr_.astype(fdt).astype(float), fr_):
                continue
            ctx.case(('gaussian-shot-noise-frame-type', lvl, np.dtype(fdt).name))
            a_ = np.asarray(dmod.shot_noise(fr_.astype(fdt), method='gaussian', seed=11), dtype=float)
            b_ = np.asarray(dmod.shot_noise(fr_, method='gaussian', seed=11), dtype=float)
            if not np.array_equal(a_, b_):
                ctx.violation({'clause': 'Support', 'f': 'shot_noise', 'what': 'noise-depends-on-the-type-the-frame-is-held-in', 'dtype': np.dtype(fdt).name},
                              {'level': lvl, 'samples_differing': int((a_ != b_).sum())}, case=None)
    ctx.rule = ('sessions: one frame, two different seeds out of {0, 1, 7, 12345, [3, 4]}, each seeded model called seed A, seed B, seed A '
                'with the global generator re-seeded/advanced between calls; rejection inputs (negative / 1e19, scalar and array); masks of five '
                'aspect ratios; cosmic rays under 64 [256] enumerated global seeds; distinct by (callable, arguments, seed)')
    ctx.assumptions += ['predicates on returned frames are evaluated by the recorder; byte digests identify draws']


def replay(ctx, rec):
    print('re-run ./check C18 with the same VERIF_SEED')
