"""C12 finding 1: zernike_fit / zernike_remove are not confined to the mask.

The least-squares fit is evaluated as pinv(basis) . opd.ravel() over EVERY sample
of the OPD array.  The basis is zero outside the mask, but the rows of its
pseudo-inverse that belong to samples outside the mask are only zero to rounding
(~1e-17), and 0 * NaN is NaN.  Hence what the OPD array holds OUTSIDE the mask
changes the coefficients fitted "over the mask":

  * a fill value of -9999 outside the aperture (OPD in metres, ~1e-7 inside)
    shifts the fitted coefficients by ~1e-6 relative (far above rounding),
    a fill value of 1e10 gives coefficients that are wrong by ~10 % and more;
  * NaN (or inf) outside the aperture makes every fitted coefficient NaN and
    zernike_remove returns NaN inside the aperture.

In every case the OPD inside the mask is exactly the OPD composed from the
given coefficients, and an ordinary least-squares fit restricted to the mask
samples recovers them to 1e-15.
"""
import os
import sys

sys.path.insert(0, os.environ.get('LENTIL_REPO', '.'))

import warnings
import numpy as np
import lentil

warnings.simplefilter('ignore')

mask = lentil.circle((256, 256), 100, antialias=False)
inside = mask != 0
failures = []


def run(modes, coeffs, fill):
    modes = np.asarray(modes)
    coeffs = np.asarray(coeffs, dtype=float)
    full = np.zeros(modes.max())
    full[modes - 1] = coeffs
    composed = lentil.zernike_compose(mask, full)

    # same OPD inside the mask, `fill` outside of it
    opd = np.where(inside, composed, fill)

    # reference: least squares over the samples of the mask only
    basis = lentil.zernike_basis(mask, modes, vectorize=True)
    sel = inside.ravel()
    ref = np.linalg.lstsq(basis[:, sel].T, opd.ravel()[sel], rcond=None)[0]
    ref_err = np.max(np.abs(ref - coeffs)) / np.max(np.abs(coeffs))

    fit = lentil.zernike_fit(opd, mask, modes)
    fit_err = np.max(np.abs(fit - coeffs)) / np.max(np.abs(coeffs))

    residual = lentil.zernike_remove(opd, mask, modes)
    res_err = np.max(np.abs(residual[inside])) / np.max(np.abs(composed))

    print('modes %-14s fill outside mask = %-8s' % (modes.tolist(), fill))
    print('    lstsq on mask samples : rel. coefficient error %.2e' % ref_err)
    print('    lentil.zernike_fit    : rel. coefficient error %.2e   %s'
          % (fit_err, fit))
    print('    lentil.zernike_remove : rel. residual inside the mask %.2e' % res_err)

    # NaN compares False with <=, so NaN results are failures too
    if not (fit_err <= 1e-10):
        failures.append('zernike_fit, modes %s, fill %s: rel. error %.2e'
                        % (modes.tolist(), fill, fit_err))
    if not (res_err <= 1e-10):
        failures.append('zernike_remove, modes %s, fill %s: rel. residual %.2e'
                        % (modes.tolist(), fill, res_err))


# control: zero outside the mask (passes)
run([1, 2, 3, 4], [30e-9, -120e-9, 75e-9, 200e-9], 0.0)
# fill values outside the aperture
run([1, 2, 3, 4], [30e-9, -120e-9, 75e-9, 200e-9], -9999.0)
run([4, 2, 7], [200e-9, -120e-9, 40e-9], 1e10)
run([4, 2, 7], [200e-9, -120e-9, 40e-9], np.nan)
run([2, 3], [1.0, -2.0], np.nan)

if failures:
    print()
    print('VIOLATION: samples outside the mask change the coefficients fitted '
          'over the mask / the component removed from it:')
    for f in failures:
        print('   ', f)
    sys.exit(1)

print('OK: fit and removal depend only on the samples of the mask')
sys.exit(0)
