"""C07 - wavefront views agree with each other and planes act as pointwise phasors.

B: programs of 1..3 plane multiplications (Plane / Pupil / Image in the orders the type table allows; amplitude
   scalar or array, OPD scalar or array, mask absent / 2-D / 3-D with overlapping bounding boxes; pixel scales
   None/None, None/x, x/x and the refused x/y), optionally followed by a propagation and an Image plane, are
   evaluated exactly by TLC on Optics.tla.  On lentil, after EVERY step: field (vs spec), intensity (vs |field|^2
   of the spec and of lentil's own field), Wavefront.insert into a dirty target of arbitrary shape with a weight,
   wavelength, focal length, pixel scale, shape; a default Plane must change nothing; a refused multiplication
   must leave both operands unchanged.
"""
import pickle
import random
from fractions import Fraction as Fr

import numpy as np

from harness.core import import_lentil
from harness import optics as ox

LEVEL = 'model_checking'


def rand_plane(rng, N, shape, cls, px, z, allow_single, need_shape=False):
    m, n = shape
    kind = rng.choice(('arr-nomask', 'arr-2d', 'arr-3d', 'scalar-2d', 'scalar-nomask', 'arr-2d-sub') if not need_shape else
                      ('arr-nomask', 'arr-2d', 'arr-3d', 'scalar-2d', 'arr-2d-sub'))
    single = False
    opd = rng.choice((0, rng.randrange(N))) if rng.random() < 0.3 else np.array([[rng.randrange(N) for _ in range(n)] for _ in range(m)])
    for _ in range(100):
        sup = np.array([[rng.random() < 0.7 for _ in range(n)] for _ in range(m)])
        if sup.sum() < 2:
            continue
        rows, cols = np.flatnonzero(sup.any(axis=1)), np.flatnonzero(sup.any(axis=0))
        one = (rows[-1] - rows[0] + 1) * (cols[-1] - cols[0] + 1) == 1
        if one and not allow_single:
            continue
        break
    amp_arr = np.array([[rng.choice((1, 2, 3)) for _ in range(n)] for _ in range(m)])
    if kind == 'scalar-nomask':
        # scalar amplitude, no mask; the OPD may well be a sampled map (it then gives the plane its shape)
        return ox.plane(cls, amp=rng.choice((1, 2)), opd=opd if (np.ndim(opd) == 0 or rng.random() < 0.6) else int(opd[0, 0]), px=px, z=z), False
    if kind == 'arr-nomask':
        return ox.plane(cls, amp=amp_arr * sup, opd=opd, px=px, z=z), False
    if kind == 'arr-2d' and rng.random() < 0.25:
        # a mask that transmits everything, written as a scalar (1, True, 1.0): the plane is as large as its sampled attributes
        if rng.random() < 0.5 or np.ndim(opd) == 0:
            return ox.plane(cls, amp=amp_arr, opd=opd, mask=np.ones((m, n), dtype=int), px=px, z=z, mask_scalar=rng.choice((1, True, 1.0))), False
        return ox.plane(cls, amp=rng.choice((1, 2)), opd=opd, mask=np.ones((m, n), dtype=int), px=px, z=z, mask_scalar=rng.choice((1, True, 1.0))), False
    if kind == 'arr-2d':
        return ox.plane(cls, amp=amp_arr, opd=opd, mask=sup.astype(int), px=px, z=z), False
    if kind == 'arr-2d-sub':
        # amplitude support larger than the mask: the mask decides
        return ox.plane(cls, amp=amp_arr, opd=opd, mask=(sup & (amp_arr > 1)).astype(int) if (sup & (amp_arr > 1)).sum() >= 2 and
                        np.ptp(np.argwhere(sup & (amp_arr > 1)), axis=0).sum() > 0 else sup.astype(int), px=px, z=z), False
    if kind == 'scalar-2d':
        return ox.plane(cls, amp=rng.choice((1, 2)), opd=opd, mask=sup.astype(int), px=px, z=z), False
    # 3-D: split the support into interleaved segments
    pix = np.argwhere(sup)
    k = rng.choice((2, 3))
    segs = np.zeros((k, m, n), dtype=int)
    for t, (r, c) in enumerate(pix):
        segs[rng.randrange(k) if t >= k else t, r, c] = 1
    if rng.random() < 0.35:
        # segment masks that SHARE samples (as closely packed, antialiased segment masks do once they are made binary): the plane
        # still transmits every sample once
        shared = segs.copy()
        for (r, c) in pix:
            if rng.random() < 0.3:
                shared[rng.randrange(k), r, c] = 1
        owned = shared * ((np.cumsum(shared, axis=0) - shared) == 0)
        if all(o.any() for o in owned):
            segs = shared
    owned = segs * ((np.cumsum(segs, axis=0) - segs) == 0)
    for s in owned:
        rows, cols = np.flatnonzero(s.any(axis=1)), np.flatnonzero(s.any(axis=0))
        if len(rows) == 0 or (rows[-1] - rows[0] + 1) * (cols[-1] - cols[0] + 1) == 1:
            single = True
    if single and not allow_single:
        return ox.plane(cls, amp=amp_arr, opd=opd, mask=sup.astype(int), px=px, z=z), False
    segs = segs[[s.any() for s in segs]]
    return ox.plane(cls, amp=amp_arr, opd=opd, mask=segs if len(segs) > 1 else segs[0], px=px, z=z), single


def gen_case(rng, tier):
    N = rng.choice((8, 16, 24, 32))
    shape = (rng.randint(2, 4), rng.randint(2, 4))
    route = rng.choice(('none', 'pupil', 'image', 'none-pupil', 'pupil-prop'))
    lam = Fr(1, 128)
    pxs = [None, (Fr(1, 2), Fr(1, 2)), (Fr(1, 2), Fr(1, 4)), (Fr(5, 10 ** 6), Fr(5, 10 ** 6))]      # incl. micron-scale sampling
    wpx = rng.choice((pxs[0], pxs[1], pxs[3])) if route != 'pupil-prop' else None
    conflict = rng.random() < 0.12 and route != 'pupil-prop'
    allow_single = rng.random() < 0.05
    seq = {'none': ['Plane', 'Plane'], 'pupil': ['Pupil', 'Pupil', 'Pupil'], 'image': ['Image', 'Image'],
           'none-pupil': ['Plane', 'Pupil', 'Pupil'], 'pupil-prop': ['Pupil']}[route]
    seq = seq[:rng.randint(1, len(seq))]
    steps = []
    single = False
    cur_px = wpx
    for i, cls in enumerate(seq):
        if route == 'pupil-prop':
            px = (Fr(1, 2), Fr(1, 2))
        elif conflict and i == len(seq) - 1 and cur_px is not None:
            # inconsistent with what the wavefront carries (grossly, or by a fraction of a per cent): must be refused
            px = rng.choice(((cur_px[0] * 2, cur_px[1]), (cur_px[0], cur_px[1] * Fr(1001, 1000)), (cur_px[0] * Fr(501, 500), cur_px[1])))
        else:
            px = rng.choice((None, cur_px)) if cur_px is not None else rng.choice(pxs)
        st, sgl = rand_plane(rng, N, shape, cls, px, Fr(rng.choice((2, 4))) if cls == 'Pupil' else None, allow_single, need_shape=(route == 'pupil-prop'))
        single = single or sgl
        if rng.random() < 0.3:
            st['opd_dtype'] = 'float32'        # the same OPD map held in single precision (where every value is exactly representable)
        if rng.random() < 0.3:
            st['amp_dtype'] = rng.choice(('float32', 'float16'))      # small whole numbers: exactly representable
        if rng.random() < 0.3:
            st['mask_dtype'] = rng.choice(('float32', 'float16', 'bool', 'uint8'))
        steps.append(st)
        if px is not None and cur_px is None:
            cur_px = px
        if rng.random() < 0.2:
            steps.append(ox.plane('Plane' if route in ('none',) and i == 0 else cls, z=Fr(4) if cls == 'Pupil' else None))  # default attributes
    if route == 'pupil-prop':
        K = rng.choice([k for k in (4, 8) if N % k == 0] or [N])
        os_ = rng.choice((1, 2))
        z = ox.rf(steps[-1]['z']) if steps[-1]['z'] != [] else Fr(4)
        if steps[-1]['z'] == []:
            steps[-1]['z'] = ox.rj(z)
        du = (lam * z * os_ / (K * Fr(1, 2)),) * 2
        M, Kk = rng.randint(1, 3), rng.randint(1, 3)
        steps.append(ox.dft(du, (M, Kk), None, os_))
        if rng.random() < 0.6 and M * Kk * os_ * os_ >= 2:
            ia = np.array([[rng.choice((0, 1, 2)) for _ in range(Kk * os_)] for _ in range(M * os_)])
            ia[0, 0] = ia[-1, -1] = 1
            steps.append(ox.plane('Image', amp=ia, opd=np.array([[rng.randrange(N) for _ in range(Kk * os_)] for _ in range(M * os_)])))
    z0 = None
    return dict(N=N, wf=ox.wf(lam, px=wpx, z=z0), steps=steps, route=route, single=bool(single), conflict=bool(conflict), thm='none')


def embed_centre(a, tshape):
    """|E|^2 canvas -> values on a target array of another shape (both centred at index floor(n/2))"""
    out = np.zeros(tshape, dtype=a.dtype)
    m, n = a.shape
    for i in range(tshape[0]):
        for j in range(tshape[1]):
            r = i - tshape[0] // 2 + m // 2
            c = j - tshape[1] // 2 + n // 2
            if 0 <= r < m and 0 <= c < n:
                out[i, j] = a[r, c]
    return out


def sig_of(c, k, kind):
    st = c['steps'][k]
    s = {'kind': kind, 'single_sample_bbox': c['single'], 'step_op': st['op']}
    if st['op'] == 'mul':
        s.update({'amp': st['amp']['k'], 'opd': st['opd']['k'], 'mask': st['mask']['k'], 'cls': st['cls']})
    return s


def check(ctx, lentil, c, spec, rng):
    """re-implements run_real step by step so that views can be taken after every step"""
    N = c['N']
    nv0 = len(ctx.violations)
    lam = ox.rf(c['wf']['lam'])
    w0 = c['wf']
    w = lentil.Wavefront(wavelength=float(lam), pixelscale=None if w0['px'] == [] else (float(ox.rf(w0['px'][0])), float(ox.rf(w0['px'][1]))))
    obs = []
    for k, st in enumerate(c['steps']):
        so = spec['obs'][k]
        try:
            if st['op'] == 'mul':
                p = ox._plane_obj(lentil, st, lam, N)
                before = (pickle.dumps(w), pickle.dumps(p))
                try:
                    w2 = w * p
                except Exception:
                    if (pickle.dumps(w), pickle.dumps(p)) != before:
                        ctx.violation(sig_of(c, k, 'refused-step-mutated-operand'), {'step': k}, case={'case': c, 'spec': spec})
                    raise
                w = w2
            else:
                du = (float(ox.rf(st['du'][0])), float(ox.rf(st['du'][1])))
                w = lentil.propagate_dft(w, pixelscale=du, shape=tuple(st['shape']), prop_shape=tuple(st['pshape']), oversample=st['os'])
            ro = ox.observe_real(w)
        except Exception as ex:
            ro = {'err': type(ex).__name__, 'msg': repr(ex)[:200]}
        obs.append(ro)
        if ro['err'] != 'none' or so['err'] != 'none':
            break
        if so['field'] == [] or 'field' not in ro:
            continue
        # views against each other and Wavefront.insert
        f, inten = ro['field'], ro['intensity']
        if not np.abs(inten - np.abs(f) ** 2).max() <= 1e-9 * (1 + (np.abs(f) ** 2).sum()):
            ctx.violation(sig_of(c, k, 'intensity-vs-own-field'), {'step': k, 'intensity': inten, 'abs_field_sq': np.abs(f) ** 2},
                          case={'case': c, 'spec': spec})
        exp_f, _ = ox.ring_field(so, N)
        tshape = rng.choice([f.shape, (f.shape[0] + 1, f.shape[1]), (max(1, f.shape[0] - 1), f.shape[1] + 2), (1, 1), (5, 2)])
        weight = rng.choice((1, 2.5, -1.0, 0.25))
        target = np.array([[float(rng.randint(-3, 3)) for _ in range(tshape[1])] for _ in range(tshape[0])])
        t0 = target.copy()
        try:
            r = w.insert(target, weight=weight)
            expect = t0 + weight * embed_centre(np.abs(exp_f) ** 2, tshape)
            if not (np.abs(r - expect).max() <= 1e-9 * (1 + np.abs(expect).sum()) and np.abs(target - expect).max() <= 1e-9 * (1 + np.abs(expect).sum())):
                ctx.violation(sig_of(c, k, 'insert'), {'step': k, 'target_shape': tshape, 'weight': weight, 'before': t0,
                                                      'expected': expect, 'observed': r}, case={'case': c, 'spec': spec})
        except Exception as ex:
            ctx.violation(sig_of(c, k, 'insert-' + type(ex).__name__), {'step': k, 'target_shape': tshape, 'error': repr(ex)[:200]},
                          case={'case': c, 'spec': spec})
    for (k, kind, detail) in ox.compare(c, spec['obs'], obs):
        ctx.violation(sig_of(c, k, kind), dict(detail, step=k), case={'case': c, 'spec': spec})
    if ox.one_element_involved(obs) or c['single']:
        # re-label everything this program reported: a one-sample Field took part (recorded finding)
        for i in range(nv0, len(ctx.violations)):
            sg, d, cs = ctx.violations[i]
            ctx.violations[i] = (dict(sg, single_sample_bbox=True), d, cs)


def reuse_checks(ctx, lentil, rng):
    """the SAME plane object is applied, its OPD / amplitude array is then written in place by the caller, and it is applied
    again at the same wavelength: the second product must be the pointwise phasor of the plane as it is NOW"""
    N = 16
    lam = Fr(1, 128)
    pairs = []
    for k in range(40 if ctx.tier == 'quick' else 300):
        m, n = rng.randint(2, 4), rng.randint(2, 4)
        amp = np.array([[rng.choice((1, 2, 3)) for _ in range(n)] for _ in range(m)])
        opd0 = np.array([[rng.randrange(N) for _ in range(n)] for _ in range(m)])
        d = np.array([[rng.randrange(1, N) for _ in range(n)] for _ in range(m)])
        amp2 = amp + (1 if k % 2 else 0)
        cls = rng.choice(('Plane', 'Pupil', 'Image'))
        c0 = dict(N=N, wf=ox.wf(lam), steps=[ox.plane(cls, amp=amp, opd=opd0, z=Fr(4) if cls == 'Pupil' else None)], thm='none')
        c1 = dict(N=N, wf=ox.wf(lam), steps=[ox.plane(cls, amp=amp2, opd=opd0 + d, z=Fr(4) if cls == 'Pupil' else None)], thm='none')
        pairs.append((c0, c1, d, amp2 - amp))
    flat = [c for p in pairs for c in p[:2]]
    for i, c in enumerate(flat):
        c['id'] = i
    spec, results = ox.eval_spec(flat)
    for n_, res in results:
        ctx.add_tlc(res, f'MC_Optics (plane reuse) ring N={n_}')
    unit = float(lam) / N
    for c0, c1, d, da in pairs:
        p = ox._plane_obj(lentil, c0['steps'][0], lam, N)
        w = lentil.Wavefront(float(lam))
        f0 = (w * p).field
        p.opd[...] = p.opd + d * unit                # the caller writes into the arrays the plane holds
        p.amplitude[...] = p.amplitude + da
        f1 = (w * p).field
        for which, f, c in (('first', f0, c0), ('after-in-place-update', f1, c1)):
            e, _ = ox.ring_field(spec[c['id']]['obs'][0], N)
            ctx.case(('reuse', c['id']), nontrivial=True)
            if f.shape != e.shape or not np.abs(f - e).max() <= 1e-9 * (1 + np.abs(e).sum()):
                ctx.violation({'kind': 'plane-reused-' + which, 'cls': c['steps'][0]['cls'], 'single_sample_bbox': False},
                              {'expected': e, 'observed': f}, case={'case': c, 'spec': spec[c['id']]})


def run(ctx):
    lentil = import_lentil()
    rng = random.Random(7007 + ctx.seed)
    n = 1500 if ctx.tier == 'quick' else 15000
    cases = [gen_case(rng, ctx.tier) for _ in range(n)]
    for _ in range(40 if ctx.tier == 'quick' else 300):
        b = ox.bridging_case(rng)
        b.update(route='bridging', single=False, conflict=False)
        cases.append(b)
    for i, c in enumerate(cases):
        c['id'] = i
    spec, results = ox.eval_spec(cases)
    for N, res in results:
        ctx.add_tlc(res, f'MC_Optics ring N={N}')
    rng2 = random.Random(77 + ctx.seed)
    for c in cases:
        check(ctx, lentil, c, spec[c['id']], rng2)
        ctx.case(c['id'], nontrivial=len(c['steps']) > 1 or c['steps'][0]['mask']['k'] != 'none')
    reuse_checks(ctx, lentil, rng)
    # a plane built with default attributes and given its sampled OPD / amplitude afterwards (attribute assignment, as the user guide
    # allows "at any time") is the same pointwise phasor as the plane built with them
    for _ in range(20):
        m_, n_ = rng.randint(2, 5), rng.randint(2, 5)
        O_ = np.array([[rng.randrange(16) for _ in range(n_)] for _ in range(m_)]) * (1e-6 / 16)
        A_ = np.array([[rng.choice((0, 1, 2)) for _ in range(n_)] for _ in range(m_)], dtype=float)
        A_[0, 0] = A_[-1, -1] = 1.0
        which = rng.choice(('opd', 'amplitude', 'both'))
        cls_ = rng.choice((lentil.Plane, lentil.Pupil))
        kw_ = {'focal_length': 2.0} if cls_ is lentil.Pupil else {}
        ctx.case(('late-attributes', which, cls_.__name__, m_, n_))
        try:
            late = cls_(pixelscale=1e-3, **kw_)
            if which in ('opd', 'both'):
                late.opd = O_
            if which in ('amplitude', 'both'):
                late.amplitude = A_
            ref = cls_(pixelscale=1e-3, **dict(kw_, **({'opd': O_} if which != 'amplitude' else {}), **({'amplitude': A_} if which != 'opd' else {})))
            wl_, wr_ = lentil.Wavefront(1e-6) * late, lentil.Wavefront(1e-6) * ref
            ok = tuple(wl_.shape) == tuple(wr_.shape) == (m_, n_) and np.allclose(wl_.field, wr_.field, rtol=1e-12, atol=1e-12) \
                and np.allclose(wl_.intensity, np.abs(wr_.field) ** 2, rtol=1e-12, atol=1e-12)
            err = None
        except Exception as ex:
            ok, err = False, repr(ex)[:200]
        if not ok:
            ctx.violation({'kind': 'attributes-assigned-after-construction', 'which': which}, {'shape': [m_, n_], 'error': err}, case=None)
    # what the OPD and amplitude arrays hold OUTSIDE the mask (NaN where a measured map has no data, a huge sentinel) is multiplied by
    # zero there and must not reach the field - whichever bounding boxes the description of the aperture happens to have
    for _ in range(12):
        m_, n_ = rng.randint(4, 7), rng.randint(4, 7)
        sup_ = np.zeros((m_, n_), dtype=int)
        sup_[0:2, 0:2] = 1
        sup_[m_ - 2:, n_ - 2:] = 1                       # two blocks in opposite corners: the bounding box covers the gap
        O_ = np.array([[rng.randrange(16) for _ in range(n_)] for _ in range(m_)]) * (1e-6 / 16)
        A_ = np.array([[rng.choice((1.0, 2.0)) for _ in range(n_)] for _ in range(m_)])
        junk = rng.choice((np.nan, np.inf, 1e303))
        which = rng.choice(('opd', 'amplitude', 'both'))
        O_j = np.where(sup_ != 0, O_, junk) if which in ('opd', 'both') else O_
        A_j = np.where(sup_ != 0, A_, junk if np.isnan(junk) else np.nan) if which in ('amplitude', 'both') else A_
        segs_ = np.zeros((2, m_, n_), dtype=int)
        segs_[0, 0:2, 0:2] = 1
        segs_[1, m_ - 2:, n_ - 2:] = 1
        ref_ = (lentil.Wavefront(1e-6) * lentil.Plane(amplitude=A_ * sup_, opd=O_ * sup_, mask=sup_)).field
        for mk_, name in ((sup_, 'one mask'), (segs_, 'two segments')):
            ctx.case(('junk-outside-the-mask', which, str(junk), name, m_, n_))
            import warnings as _w2
            with _w2.catch_warnings():
                _w2.simplefilter('ignore')
                got_ = (lentil.Wavefront(1e-6) * lentil.Plane(amplitude=A_j, opd=O_j, mask=mk_)).field
            if not (np.all(np.isfinite(got_)) and np.allclose(got_, ref_, rtol=1e-12, atol=1e-12)):
                ctx.violation({'kind': 'values-outside-the-mask-reach-the-field', 'which': which, 'described_by': name},
                              {'outside': str(junk), 'non_finite_samples': int((~np.isfinite(got_)).sum())}, case=None)
    # a scalar amplitude is that number whatever type the (binary) mask is stored in
    for _ in range(12):
        m_, n_ = rng.randint(2, 5), rng.randint(2, 5)
        sup_ = np.array([[rng.random() < 0.7 for _ in range(n_)] for _ in range(m_)])
        sup_[0, 0] = sup_[-1, -1] = True
        a0_ = rng.choice((0.3, 0.7, 1.1))
        O_ = np.array([[rng.randrange(16) for _ in range(n_)] for _ in range(m_)]) * (1e-6 / 16)
        opd_ = rng.choice((O_, 5.50532016e-08))
        ref_ = (lentil.Wavefront(5e-7) * lentil.Plane(amplitude=a0_, opd=opd_, mask=sup_.astype(float))).field
        for mdt in (np.float16, np.float32, bool, np.uint8):
            ctx.case(('scalar-amplitude-mask-dtype', np.dtype(mdt).name, a0_, m_, n_, np.ndim(opd_)))
            got_ = (lentil.Wavefront(5e-7) * lentil.Plane(amplitude=a0_, opd=opd_, mask=sup_.astype(mdt))).field
            if not np.allclose(got_, ref_, rtol=1e-13, atol=1e-15):
                ctx.violation({'kind': 'field-depends-on-the-storage-type-of-the-mask', 'mask_dtype': np.dtype(mdt).name, 'opd': 'scalar' if np.ndim(opd_) == 0 else 'array'},
                              {'amplitude': a0_, 'max_abs_difference': float(np.abs(got_ - ref_).max())}, case=None)
    # an oversampling factor given as a float (its documented type): the result is the result for that factor and all three views of it
    # can be evaluated and agree; a factor that does not give a whole number of samples is refused
    wov = lentil.Wavefront(1e-6) * lentil.Pupil(amplitude=lentil.circle((32, 32), 12), pixelscale=1e-3, focal_length=1.0)
    ref2 = lentil.propagate_dft(wov, pixelscale=5e-6, shape=(8, 8), oversample=2)
    for ov in (2.0, np.float64(2), np.float32(2), 1.5):
        ctx.case(('float-oversample', str(ov)))
        try:
            wi = lentil.propagate_dft(wov, pixelscale=5e-6, shape=(8, 8), oversample=ov)
            n_ = int(round(8 * float(ov)))
            f_, i_ = wi.field, wi.intensity
            ins_ = wi.insert(np.zeros((n_, n_)), 3.0)
            ok = f_.shape == (n_, n_) and np.allclose(i_, np.abs(f_) ** 2, rtol=1e-12, atol=1e-15) and np.allclose(ins_, 3.0 * i_, rtol=1e-12, atol=1e-15) \
                and (float(ov) != 2.0 or np.allclose(f_, ref2.field, rtol=1e-12, atol=1e-14))
            err = None
        except Exception as ex:
            ok, err = False, repr(ex)[:160]
        if not ok:
            ctx.violation({'kind': 'views-of-a-result-with-float-oversample', 'oversample': str(ov)}, {'error': err}, case=None)
    # the amplitude may be complex (a four-quadrant phase mask written as 1, 1j, -1, -1j): without an explicit mask the plane
    # transmits where the amplitude is non-zero, and the field there is the amplitude times the phasor
    for _ in range(8):
        m_, n_ = rng.randint(3, 6), rng.randint(3, 6)
        Ac = np.array([[rng.choice((0, 1, 1j, -1, -1j, 0.5 + 0.5j, 2j)) for _ in range(n_)] for _ in range(m_)], dtype=complex)
        Ac[0, 0], Ac[-1, -1], Ac[0, -1] = 1j, -1j, 1.0
        O_ = np.array([[rng.randrange(16) for _ in range(n_)] for _ in range(m_)]) * (1e-6 / 16)
        for opd_ in (0.0, O_):
            ctx.case(('complex-amplitude', m_, n_, np.ndim(opd_)))
            try:
                got_ = (lentil.Wavefront(1e-6) * lentil.Plane(amplitude=Ac, opd=opd_)).field
                ok = got_.shape == Ac.shape and np.allclose(got_, Ac * np.exp(2j * np.pi * np.asarray(opd_) / 1e-6), rtol=1e-12, atol=1e-14)
                err = None
            except Exception as ex:
                ok, err = False, repr(ex)[:160]
            if not ok:
                ctx.violation({'kind': 'complex-amplitude-not-transmitted-on-its-support', 'opd': 'scalar' if np.ndim(opd_) == 0 else 'array'}, {'shape': [m_, n_], 'error': err}, case=None)
    # a tilt element that carries a pixel scale of its own is a plane like any other: inconsistent pixel scales are refused
    wps = lentil.Wavefront(1e-6) * lentil.Pupil(amplitude=lentil.circle((8, 8), 3), pixelscale=1e-3, focal_length=1.0)
    for mk, name in ((lambda px: lentil.Tilt(x=1e-6, y=0.0, pixelscale=px), 'Tilt'),
                     (lambda px: lentil.DispersiveTilt(trace=[1., 0.], dispersion=[1e-3, 1e-6], pixelscale=px), 'DispersiveTilt')):
        for px, conflict in ((1e-3, False), (2e-3, True), (1.001e-3, True), ((1e-3, 2e-3), True)):
            ctx.case(('tilt-element-pixelscale', name, str(px)))
            try:
                r_ = wps * mk(px)
                outcome = 'accepted'
            except ValueError:
                outcome = 'refused'
            except Exception as ex:
                outcome = type(ex).__name__
            if outcome != ('refused' if conflict else 'accepted'):
                ctx.violation({'kind': 'tilt-element-with-a-pixel-scale', 'class': name, 'conflict': conflict}, {'pixelscale': str(px), 'outcome': outcome}, case=None)
    # ... and the same for the FFT route with an explicit shape (an exactly sampled grid: 1 / alpha = 40 per oversampled sample)
    wfv = lentil.Wavefront(1e-6) * lentil.Pupil(amplitude=lentil.circle((16, 16), 6), pixelscale=1e-3, focal_length=1.0)
    ref3 = lentil.propagate_fft(wfv, pixelscale=50e-6, shape=(6, 7), oversample=2)
    for ov in (2.0, np.float64(2), np.float32(2), np.uint64(2)):
        ctx.case(('float-oversample-fft', type(ov).__name__))
        try:
            wi = lentil.propagate_fft(wfv, pixelscale=50e-6, shape=(6, 7), oversample=ov)
            f_, i_ = wi.field, wi.intensity
            ok = f_.shape == (12, 14) and np.allclose(i_, np.abs(f_) ** 2, rtol=1e-12, atol=1e-15) and np.allclose(f_, ref3.field, rtol=1e-12, atol=1e-14)
            err = None
        except Exception as ex:
            ok, err = False, repr(ex)[:160]
        if not ok:
            ctx.violation({'kind': 'views-of-a-result-with-float-oversample', 'route': 'fft', 'oversample': type(ov).__name__}, {'error': err}, case=None)
    # a wavefront that has met no sampled plane yet is one constant c on an unbounded plane (Optics!ConstPhasorTerms): its intensity is
    # |c|^2 everywhere, so accumulating it into ANY array with a weight adds weight * |c|^2 to every sample
    for _ in range(30):
        a1, a2 = rng.choice((1, 0.5, 2)), rng.choice((1, 3, 0.25))
        ph1 = rng.choice((0, 1, 5)) / 16.0
        w = lentil.Wavefront(1e-6)
        chain = rng.choice(('none', 'plane', 'plane-plane', 'tilt'))
        if chain in ('plane', 'plane-plane'):
            w = w * lentil.Plane(amplitude=a1, opd=ph1 * 1e-6)
        if chain == 'plane-plane':
            w = w * lentil.Plane(amplitude=a2)
        if chain == 'tilt':
            w = w * lentil.Tilt(x=1e-6, y=-2e-6)
        c2 = {'none': 1.0, 'plane': a1 ** 2, 'plane-plane': (a1 * a2) ** 2, 'tilt': 1.0}[chain]
        tshape = (rng.randint(1, 4), rng.randint(1, 5))
        weight = rng.choice((1, 2.5, -1.0))
        target = np.array([[float(rng.randint(-3, 3)) for _ in range(tshape[1])] for _ in range(tshape[0])])
        t0 = target.copy()
        ctx.case(('unbounded-wavefront-insert', chain, tshape, weight, a1, a2))
        try:
            inten = np.asarray(w.intensity)
            r = w.insert(target, weight=weight)
            ok = inten.size == 1 and abs(float(inten.ravel()[0]) - c2) <= 1e-12 and np.allclose(r, t0 + weight * c2, rtol=1e-12, atol=1e-12) \
                and np.allclose(target, t0 + weight * c2, rtol=1e-12, atol=1e-12)
            err = None
        except Exception as ex:
            ok, err = False, repr(ex)[:200]
        if not ok:
            ctx.violation({'kind': 'insert-of-unbounded-wavefront', 'chain': chain, 'raised': err is not None},
                          {'target_shape': list(tshape), 'weight': weight, 'constant_intensity': c2, 'error': err}, case=None)
    # a plane with default attributes changes NOTHING: every public attribute of the wavefront, the descriptive ones too
    for cls in ('Plane', 'Pupil', 'Image', 'Tilt'):
        for wkw in (dict(), dict(pixelscale=0.5, focal_length=4.0), dict(pixelscale=(0.5, 0.25), diameter=2.0, focal_length=4.0, tilt=[1e-6, -2e-6])):
            w0 = lentil.Wavefront(2.0 ** -7, **wkw)
            if cls == 'Pupil':
                w0 = lentil.Wavefront(2.0 ** -7, ptype=lentil.pupil, **wkw)
                pl = lentil.Pupil(focal_length=w0.focal_length)      # (a pupil hands over ITS focal length: give it the wavefront's)
            elif cls == 'Image':
                w0 = lentil.Wavefront(2.0 ** -7, ptype=lentil.image, **wkw)
                pl = lentil.Image()
            elif cls == 'Tilt':
                continue                       # (a tilt element is not a default plane: it records itself)
            else:
                pl = lentil.Plane()
            ctx.case(('default-plane', cls, str(sorted(wkw))))
            try:
                w1 = w0 * pl
            except TypeError:
                continue                       # combination not allowed by the type table (C08)
            names = ('wavelength', 'pixelscale', 'diameter', 'focal_length', 'shape', 'ptype')
            diff = [nm for nm in names if str(getattr(w0, nm, None)) != str(getattr(w1, nm, None))]
            if diff or len(w1.data) != len(w0.data):
                ctx.violation({'kind': 'default-plane-changes-attribute', 'cls': cls, 'attribute': diff[0] if diff else 'fields'},
                              {'before': {nm: str(getattr(w0, nm, None)) for nm in names}, 'after': {nm: str(getattr(w1, nm, None)) for nm in names}}, case=None)
    ctx.traces += len(cases)
    ctx.extra.update({'refused_pixelscale_cases': sum(1 for c in cases if c['conflict']),
                      'with_propagation': sum(1 for c in cases if c['route'] == 'pupil-prop'),
                      'one_sample_mask_cases': sum(1 for c in cases if c['single'])})
    ctx.sample({'case': cases[0]}, maxn=1)
    ctx.rule = ('seeded programs of 1..3 planes (+ default-attribute planes, + propagation and Image plane) over all amplitude/OPD/mask '
                'representations and pixel-scale combinations; after each step five views are checked; distinct by program; '
                'non-trivial = more than one step or an explicit mask')
    ctx.assumptions += ['harness/optics.py abstraction; Wavefront.insert expectation embeds |E|^2 about index floor(n/2) of the target']


def replay(ctx, rec):
    lentil = import_lentil()
    check(ctx, lentil, rec['case']['case'], rec['case']['spec'], random.Random(1))
