"""C10 / sibling call site of repair 7e96bb2: Plane.multiply hands the LIVE Tilt objects of
plane.tilt (the tilt book-kept by fit_tilt) to the wavefront.

TiltInterface.multiply now records a copy of a tilt element, so that a wavefront keeps the
tilt the element had when it passed through it.  The other place where tilt enters a
wavefront - Plane.multiply, `tilt=self.tilt[n::self.size]` - copies the list but not the
Tilt objects in it.  Steering a fitted (segment) tilt afterwards, plane.tilt[k].x = ...,
moves the image of every wavefront that was formed from the plane before.
"""
import os
import sys

sys.path.insert(0, os.environ['LENTIL_REPO'])

import numpy as np
import lentil

assert os.path.abspath(lentil.__file__).startswith(os.path.abspath(os.environ['LENTIL_REPO']))


def image(w):
    return lentil.propagate_dft(w, pixelscale=5e-6, shape=48, oversample=2).intensity


fail = False

# ---- monolithic pupil --------------------------------------------------------------
amp = lentil.circle((32, 32), 13)
mask = amp != 0
opd = lentil.zernike_compose(mask, [0, 3e-7, 2e-7, 1e-7])
pupil = lentil.Pupil(amplitude=amp, opd=opd, pixelscale=1/32, focal_length=10)
pupil.fit_tilt(inplace=True)                 # documented in-place fit: pupil.tilt == [Tilt]

w1 = lentil.Wavefront(650e-9) * pupil        # wavefront formed NOW
before = image(w1)

pupil.tilt[0].x += 2e-6                      # pointing of the plane is changed for the next exposure

after = image(w1)                            # same wavefront, same arguments
change = np.abs(after - before).max()
print(f'monolithic: max |change| of the image of the earlier wavefront = {change:.4g} (peak {before.max():.4g})')
fail |= change > 1e-9 * before.max()

# ---- segmented pupil: one segment is steered ----------------------------------------
segs = lentil.hex_segments(rings=1, seg_radius=8, seg_gap=1, antialias=False)
gm = segs.sum(axis=0)
spupil = lentil.Pupil(amplitude=gm, opd=lentil.zernike_compose(gm, [0, 1e-7, 2e-7]), mask=segs,
                      pixelscale=1/segs.shape[1], focal_length=10)
spupil.fit_tilt(inplace=True)
frames = []
wavefronts = []
for k in range(3):                           # three wavefronts collected, propagated afterwards
    spupil.tilt[2].y = k * 4e-6              # segment 2 is stepped between the wavefronts
    w = lentil.Wavefront(650e-9) * spupil
    wavefronts.append(w)
    frames.append(image(w))                  # image taken at once
late = [image(w) for w in wavefronts]        # the same wavefronts propagated after the loop
for k in range(3):
    d = np.abs(late[k] - frames[k]).max()
    print(f'segmented : wavefront {k}: max |image later - image at once| = {d:.4g} (peak {frames[k].max():.4g})')
    fail |= d > 1e-9 * frames[k].max()

# appending to / replacing the list is harmless (the list itself is copied)
p2 = lentil.Pupil(amplitude=amp, opd=opd, pixelscale=1/32, focal_length=10)
p2.fit_tilt(inplace=True)
w2 = lentil.Wavefront(650e-9) * p2
a = image(w2)
p2.tilt.append(lentil.Tilt(1e-6, 1e-6))
p2.tilt = []
print('list appended / replaced         : max |change| =', np.abs(image(w2) - a).max())

if fail:
    print('\nVIOLATION: propagating the same wavefront again gives another image once a Tilt in '
          'plane.tilt has been updated; Plane.multiply passes the live Tilt objects of plane.tilt '
          'to the wavefront (TiltInterface.multiply, repaired, records a copy).')
    sys.exit(1)
print('no violation observed')
sys.exit(0)
