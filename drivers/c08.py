"""C08 - plane-type state machine follows the documented table.

A: TLC checks the documented tables (closure, refusal leaves state unchanged, propagation rule, every
   documented class usable) on PType.tla, whose constants are parsed from /repo/docs at check time.
B: every program of the state graph up to the length bound is executed on real lentil objects; after
   every step the wavefront's ptype / the exception class is compared with the documentation's
   prediction, and after a refused step both operands must be byte-identical to before.
"""
import hashlib
import json
import os
import pickle
import re
import warnings

import numpy as np

from harness.core import import_lentil, REPO, VERIF
from harness.tlc import run_tlc, WORK, TLCError

LEVEL = 'model_checking'


# ------------------------------------------------------------------------------------ documentation
def parse_docs():
    base = os.path.join(REPO, 'docs')
    wf = open(os.path.join(base, 'user/fundamentals/wavefront.rst')).read()
    sec = wf[wf.index('Multiplication rules'):]
    rows = [l for l in sec.splitlines() if l.startswith('|')]
    # header rows: first two '|' rows; the second one carries the wavefront types
    cells = lambda l: [c.strip().strip('`') for c in l.strip().strip('|').split('|')]
    hdr = None
    table = {}
    for l in rows:
        c = cells(l)
        if hdr is None:
            if len(c) == 4 and all(x in ('none', 'pupil', 'image') for x in c[1:]):
                hdr = c[1:]
            continue
        if len(c) == 4 and c[0] in ('none', 'pupil', 'image', 'tilt', 'transform'):
            for w, v in zip(hdr, c[1:]):
                table.setdefault(w, {})[c[0]] = 'NotAllowed' if v.lower().startswith('not allowed') else v
    assert hdr and len(table) == 3 and all(len(v) == 5 for v in table.values()), table

    pl = open(os.path.join(base, 'user/fundamentals/planes.rst')).read()
    sec = pl[pl.index('Lentil planes support the following ptypes'):]
    ptype_of = {}
    for l in sec.splitlines():
        m = re.match(r':class:`(\w+)`\s+(.*)$', l)
        if m:
            for c in re.findall(r':class:`~lentil\.(\w+)`', m.group(2)):
                ptype_of[c] = m.group(1)
        if l.startswith('The rules defining'):
            break
    ref = open(os.path.join(base, 'ref/planes.rst')).read()
    doc_classes = re.findall(r'^\s+lentil\.(\w+)\s*$', ref, re.M)
    lentil = import_lentil()
    classes = {}
    for c in doc_classes:
        cls = getattr(lentil, c)
        # documented type of the nearest documented ancestor (Grism -> DispersiveTilt -> tilt)
        for anc in cls.__mro__:
            if anc.__name__ in ptype_of:
                classes[c] = ptype_of[anc.__name__]
                break
    df = open(os.path.join(base, 'user/fundamentals/diffraction.rst')).read()
    prop = {'none': 'NotAllowed', 'pupil': 'NotAllowed', 'image': 'NotAllowed'}
    for l in df.splitlines():
        m = re.match(r'``(\w+)``\s+``(\w+)``\s+(.*)$', l)
        if m and 'propagate_dft' in m.group(3) and 'propagate_fft' in m.group(3):
            prop[m.group(1)] = m.group(2)
    return {'table': table, 'classes': classes, 'prop': prop}


# ------------------------------------------------------------------------------------ real objects
N = 4
FOCAL = 4.0


def digest_obj(o):
    # value digest of an object graph (arrays, offsets, tilt elements, metadata)
    return hashlib.sha1(pickle.dumps(o, protocol=4)).hexdigest()


def make_plane(lentil, act, arg):
    if act == 'MulType':
        return lentil.Plane(ptype=arg)
    if act == 'MulTypedTilt':
        TILTS[0] += 1
        with warnings.catch_warnings():
            warnings.simplefilter('ignore', DeprecationWarning)
            k_ = TILTS[0] % 3
            if k_ == 0:
                return lentil.Tilt(x=0.1, y=-0.1, ptype=arg)
            return (lentil.DispersiveTilt if k_ == 1 else lentil.Grism)(trace=[1.0, 0.0], dispersion=[1.0, 1.0], ptype=arg)
    with warnings.catch_warnings():
        warnings.simplefilter('ignore', DeprecationWarning)
        if arg == 'Plane':
            return lentil.Plane()
        if arg == 'Pupil':
            return lentil.Pupil(focal_length=FOCAL + 1.0)       # differs from the wavefront's: a hand-over is visible
        if arg == 'Image':
            return lentil.Image()
        if arg == 'Tilt':
            # every other tilt element steers the beam far off any output grid: the TYPE of a propagation result does not depend on
            # whether any light lands on the grid
            TILTS[0] += 1
            return lentil.Tilt(x=0.1, y=-0.1) if TILTS[0] % 2 else lentil.Tilt(x=40.0, y=-55.0)
        if arg in ('DispersiveTilt', 'Grism'):
            TILTS[0] += 1
            el = getattr(lentil, arg)(trace=[1.0, 0.0], dispersion=[1.0, 1.0])
            # the polynomials are plain attributes: every third element gets them assigned after construction, as a tuple or a list
            if TILTS[0] % 3 == 1:
                el.trace, el.dispersion = (1.0, 0.0), (1.0, 1.0)
            elif TILTS[0] % 3 == 2:
                el.trace, el.dispersion = [1.0, 0.0], [1.0, 1.0]
            return el
        if arg == 'Rotate':
            return lentil.Rotate(angle=90)
        if arg == 'Flip':
            return lentil.Flip(axis=0)
    raise KeyError(arg)


def start_wavefront(lentil, t):
    w = lentil.Wavefront(wavelength=1.0, pixelscale=1.0, focal_length=FOCAL, ptype=t)
    a = np.ones((N, N))
    if t == 'pupil':
        p = lentil.Pupil(amplitude=a, pixelscale=1.0, focal_length=FOCAL)
    elif t == 'image':
        p = lentil.Image(amplitude=a, pixelscale=1.0)
    else:
        p = lentil.Plane(amplitude=a, pixelscale=1.0)
    return w * p


TILTS = [0]
SKIPPED = [0]         # programs that left the modelled domain (no field left on the grid)
SHARED = {}          # plane objects reused across programs (the same Tilt meets pupil, image and none wavefronts)


def run_program(lentil, prog):
    """returns list of discrepancies (step index, what, expected, observed)"""
    import copy
    out = []
    salt = sum(len(s['arg']) for s in prog)
    try:
        w = start_wavefront(lentil, prog[0]['arg'])
    except Exception as e:   # the sampled start plane could not be applied
        return [(0, 'start', prog[0]['arg'], type(e).__name__)]
    if str(w.ptype) != prog[0]['arg']:
        return [(0, 'start', prog[0]['arg'], str(w.ptype))]
    for i, st in enumerate(prog[1:], 1):
        act, arg, exp = st['act'], st['arg'], st['exp']
        plane = None
        try:
            if act == 'Propagate':
                if (salt + i) % 3 == 0:
                    w = copy.deepcopy(w)
                elif (salt + i) % 3 == 1:
                    w = pickle.loads(pickle.dumps(w))            # as when handed to a worker process
                before = (digest_obj(w),)
                # the oversampling factor 1 in the forms a caller may hold it in (documented as a float)
                os_ = (1, 1.0, np.float32(1), np.int64(1), np.asarray(1.0), np.float16(1), np.uint8(1))[(salt + i) % 7]
                if arg == 'dft':
                    r = lentil.propagate_dft(w, pixelscale=1.0, shape=N, oversample=os_)
                else:
                    r = lentil.propagate_fft(w, pixelscale=1.0, shape=N, oversample=os_)
            else:
                if (salt + i) % 3 == 0:
                    # a wavefront that is EQUAL to w but shares no object with it (type objects included)
                    w = copy.deepcopy(w)
                elif (salt + i) % 3 == 1:
                    w = pickle.loads(pickle.dumps(w))
                if (salt + i) % 2 == 0 and arg not in ('Rotate', 'Flip'):
                    plane = SHARED.get((act, arg))
                    if plane is None:
                        plane = SHARED[(act, arg)] = make_plane(lentil, act, arg)
                else:
                    plane = make_plane(lentil, act, arg)
                    if (salt + i) % 5 == 1 and arg not in ('Rotate', 'Flip'):
                        plane = pickle.loads(pickle.dumps(plane))
                if exp == 'TypeError' and (i + len(prog)) % 2 == 0:
                    plane = make_plane(lentil, act, arg)
                    # the type rule decides even when something else is wrong as well (here: an inconsistent pixel scale)
                    plane._pixelscale = (3.0, 3.0)
                before = (digest_obj(w), digest_obj(plane))
                r = w * plane
            obs = str(r.ptype)
        except Exception as e:
            obs = type(e).__name__
            r = None
        after = (digest_obj(w),) + ((digest_obj(plane),) if plane is not None else ())
        okset = {exp}
        if exp == 'TypeErrorOrNotImplemented':
            okset = {'TypeError', 'NotImplementedError'}
        if exp == 'NotImplementedError' and obs != exp and act == 'Propagate' and len(getattr(w, 'data', [0])) == 0:
            # a far-off tilt steered all light off the grid of an earlier propagation: the wavefront holds NO field, so the later tilt
            # element had nothing to attach its metadata to and there is nothing for the FFT propagator to refuse. The program has left
            # the domain of the specification (which tracks tilt metadata per wavefront, not per field): not judged any further.
            SKIPPED[0] += 1
            return out
        if obs not in okset:
            out.append((i, 'outcome', exp, obs))
            return out           # real object and specification have diverged: stop this program
        if r is None:
            if before != after:
                out.append((i, 'refused-step-mutated-operand', 'unchanged', 'changed'))
        else:
            if exp in ('none', 'pupil', 'image') and before != after:
                # an accepted multiplication returns a new wavefront; operands stay as they were (C10
                # owns this clause, here it is only recorded for refused steps)
                pass
            w = r
    return out


def check_programs(ctx, lentil, progs, doc):
    for prog in progs:
        disc = run_program(lentil, prog)
        steps = tuple((s['act'], s['arg']) for s in prog)
        ctx.case(steps, nontrivial=len(prog) > 1)
        for (i, what, exp, obs) in disc:
            st = prog[i]
            # structural signature: which cell of which table, not which program exposed it
            wprev = prog[0]['arg']
            for s in prog[1:i]:
                if s['exp'] in ('none', 'pupil', 'image'):
                    wprev = s['exp']
            if st['act'] == 'MulClass':
                sig = {'kind': what, 'act': 'MulClass', 'class': st['arg'], 'wavefront': wprev, 'observed': obs}
            elif st['act'] in ('MulType', 'MulTypedTilt'):
                sig = {'kind': what, 'act': st['act'], 'cell': [wprev, st['arg']], 'observed': obs}
            else:
                sig = {'kind': what, 'act': st['act'], 'arg': st['arg'], 'wavefront': wprev, 'observed': obs}
            ctx.violation(sig, {'program': prog, 'step': i, 'expected': exp, 'observed': obs},
                          case={'program': prog})


def run(ctx):
    lentil = import_lentil()
    doc = parse_docs()
    os.makedirs(WORK, exist_ok=True)
    docfile = os.path.join(WORK, f'c08_doc_{os.getpid()}.json')
    with open(docfile, 'w') as f:
        json.dump(doc, f)
    try:
        L = 3
        res = run_tlc('MC_C08', env={'C08_DOC': docfile, 'C08_LEN': L}, workers=1, coverage=True, timeout=300)
        nstep = 5 + len(doc['classes']) + 5 + 2
        if len(res.emits) != 3 * nstep ** L:
            raise TLCError(f'expected {3 * nstep ** L} programs, TLC emitted {len(res.emits)}')
        ctx.add_tlc(res, f'MC_C08 exhaustive L={L}')
        ctx.require_coverage(res, ['DoMulType', 'DoMulClass', 'DoMulTypedTilt', 'DoPropagate'])
        progs = res.emits
        ctx.exhaustive = True
        if ctx.tier == 'thorough':
            L2 = 4
            res2 = run_tlc('MC_C08', env={'C08_DOC': docfile, 'C08_LEN': L2}, workers=1, timeout=900)
            ctx.add_tlc(res2, f'MC_C08 exhaustive L={L2}')
            progs = progs + res2.emits
            res3 = run_tlc('MC_C08', env={'C08_DOC': docfile, 'C08_LEN': 7}, workers=1, timeout=900,
                           simulate=f'num=3000', depth=9, seed=ctx.seed + 1)
            ctx.add_tlc(res3, 'MC_C08 simulate L=7')
            progs = progs + res3.emits
    finally:
        os.unlink(docfile)
    check_programs(ctx, lentil, progs, doc)
    ctx.traces += len(progs)
    ctx.rule = ('every program (start type, then <= L steps drawn from 5 bare plane types + every documented plane '
                'class + dft/fft propagation) generated by TLC from PType.tla is executed on real objects; a case is '
                'one program, distinct by its step sequence, non-trivial if it has at least one step')
    ctx.sample({'documentation_tables': doc})
    for p in progs[:2]:
        ctx.sample({'program': p})
    ctx.extra['programs_replayed'] = len(progs)
    ctx.skipped['FFT tilt refusal on a wavefront left without any field by an earlier far-off tilt (nothing carries the metadata)'] = SKIPPED[0]
    ctx.extra['bound'] = f'all programs of length {L}' + (' and 4, plus 3000 random programs of length 7' if ctx.tier == 'thorough' else '')
    ctx.assumptions += ['documentation tables are parsed from docs/user/fundamentals/{wavefront,planes,diffraction}.rst and docs/ref/planes.rst',
                        'sampled start planes (4x4 ones) stand for "a compatible wavefront"']


def replay(ctx, rec):
    lentil = import_lentil()
    doc = parse_docs()
    check_programs(ctx, lentil, [rec['case']['program']], doc)
