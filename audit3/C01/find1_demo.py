"""idft2 cannot undo a full-period forward transform that used shift= (or offset=).

LOW/MEDIUM CONFIDENCE - depends on whether the inverse clause of C01 is read as
quantified over the forward transform's shift/offset as well.
"""
import os, sys
sys.path.insert(0, os.environ.get("LENTIL_REPO", "."))
import numpy as np
import lentil
from lentil.fourier import dft2, idft2

rng = np.random.default_rng(0)
m, n = 6, 7
f = rng.normal(size=(m, n)) + 1j * rng.normal(size=(m, n))
alpha = (1.0 / m, 1.0 / n)          # one full period, equal shapes
bad = []

for unitary in (True, False):
    # sanity: without shift the pair is an inverse pair
    assert np.allclose(idft2(dft2(f, alpha, unitary=unitary), alpha, unitary=unitary), f)

    for shift in [(2, -3), (0.5, 0.25)]:
        F = dft2(f, alpha, shift=shift, unitary=unitary)     # still one full period
        # the information is all there: the true inverse exists (conjugate trick with
        # an *input* offset, which idft2 does not expose)
        k = 1.0 if unitary else 1.0 / F.size
        true_inv = np.conj(dft2(np.conj(F), alpha, offset=tuple(-s for s in shift),
                                unitary=unitary)) * k
        if float(shift[0]).is_integer():
            assert np.allclose(true_inv, f)
        cands = {
            "idft2(F, alpha)": idft2(F, alpha, unitary=unitary),
            "idft2(F, alpha, shift=shift)": idft2(F, alpha, shift=shift, unitary=unitary),
            "idft2(F, alpha, shift=-shift)": idft2(F, alpha, shift=tuple(-s for s in shift), unitary=unitary),
        }
        errs = {k_: float(np.max(np.abs(v - f))) for k_, v in cands.items()}
        if min(errs.values()) > 1e-6:
            bad.append((unitary, shift, errs))

if bad:
    print("VIOLATION: forward transform covered one full period (alpha=1/n, equal shapes)")
    print("but no idft2 call with the same sampling/normalisation recovers the input:")
    for unitary, shift, errs in bad:
        print(f"  unitary={unitary} forward shift={shift}")
        for k_, e in errs.items():
            print(f"     max|{k_} - f| = {e:.3g}")
    print("idft2 forwards its shift= to dft2's *output* shift and has no offset= argument,")
    print("so the input-plane (frequency) shift of the forward transform cannot be expressed.")
    sys.exit(1)
print("ok")
sys.exit(0)
