"""C08 finding 1: lentil.Rotate (documented plane class, documented ptype
'transform') cannot be multiplied with ANY wavefront: Rotate.multiply raises
AttributeError for wavefronts of type none, pupil and image, although the
documented multiplication table allows 'transform' planes for all three
wavefront types (result: none / pupil / image)."""
import os, sys, warnings
sys.path.insert(0, os.environ.get('LENTIL_REPO', '.'))
import numpy as np
import lentil
warnings.simplefilter('ignore')

amp = lentil.circle((32, 32), 12)
pupil = lentil.Pupil(amplitude=amp, pixelscale=1/24, focal_length=10)


def wavefronts():
    w_none = lentil.Wavefront(650e-9) * lentil.Plane(amplitude=amp)
    w_pupil = lentil.Wavefront(650e-9) * pupil
    w_image = lentil.propagate_dft(w_pupil, pixelscale=5e-6, shape=32, oversample=1)
    return {'none': w_none, 'pupil': w_pupil, 'image': w_image}


def snap(w):
    return (str(w.ptype), tuple(np.atleast_1d(w.shape)), w.focal_length,
            [(f.data.tobytes(), tuple(f.offset), len(f.tilt)) for f in w.data])


# documented table: a 'transform' plane is allowed for every wavefront type and
# leaves the wavefront type unchanged
expected = {'none': 'none', 'pupil': 'pupil', 'image': 'image'}
bad = []
for angle in (90, 30, 0):
    for name, w in wavefronts().items():
        assert str(w.ptype) == name
        plane = lentil.Rotate(angle=angle)
        before = snap(w)
        try:
            out = w * plane
        except Exception as e:  # the table says this cell is allowed
            bad.append(f"Wavefront('{name}') * Rotate(angle={angle}) raised "
                       f"{type(e).__name__}: {e}")
            if snap(w) != before:
                bad.append("  ... and the wavefront operand was modified")
            continue
        if str(out.ptype) != expected[name]:
            bad.append(f"Wavefront('{name}') * Rotate(angle={angle}) has ptype "
                       f"{out.ptype}, documented: {expected[name]}")

if bad:
    print("VIOLATION: the documented plane class lentil.Rotate cannot be applied "
          "to a compatible wavefront:")
    print("\n".join(bad))
    sys.exit(1)
print("ok: Rotate can be applied to none/pupil/image wavefronts with the documented result type")
sys.exit(0)
