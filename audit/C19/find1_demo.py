"""C19 finding 1: jitter() and smear() turn an all-zero image into NaN.

The all-zero image (a dark frame, an empty wavelength slice, a blank
sub-window) is a non-negative image.  Its circular convolution with any
kernel is the zero image, which is non-negative, so the property requires
  * output == that convolution == zeros,
  * the total (0) to be kept,
  * identity for zero extent.
lentil returns an array full of NaN instead (0/0 in the final rescale).
"""
import os
import sys
import warnings

sys.path.insert(0, os.environ["LENTIL_REPO"])
import numpy as np
import lentil

warnings.simplefilter("ignore")

bad = []
for shape in [(4, 6), (5, 5), (1, 1)]:
    z = np.zeros(shape)
    cases = {
        "jitter(scale=1.5)": lentil.jitter(z, 1.5),
        "jitter(scale=0)  [zero extent -> identity]": lentil.jitter(z, 0),
        "smear(distance=2, angle=30)": lentil.smear(z, 2.0, 30),
        "smear(distance=0, angle=30) [zero extent -> identity]": lentil.smear(z, 0.0, 30),
        "jitter(scale=10e-6, pixelscale=5e-6, oversample=3)":
            lentil.jitter(z, 10e-6, pixelscale=5e-6, oversample=3),
    }
    for name, out in cases.items():
        ok = out.shape == shape and np.array_equal(out, z)
        if not ok:
            bad.append((shape, name, out))

# control: the pixel blur (no rescale step) handles the same input correctly
ctrl = lentil.detector.pixel(np.zeros((4, 6)), 3)
print("control: pixel(zeros) ->", "zeros" if np.array_equal(ctrl, np.zeros((4, 6))) else ctrl)

if bad:
    for shape, name, out in bad:
        print("VIOLATION shape=%s %s: expected all zeros (sum 0), got sum=%r, "
              "n_nan=%d of %d" % (shape, name, out.sum(), np.isnan(out).sum(), out.size))
    print("jitter/smear of a non-negative (all-zero) image returns NaN: the total is "
          "not kept, the output is not the circular convolution, and zero extent is "
          "not the identity (convolvable.py: 'out * np.sum(img) / np.sum(out)').")
    sys.exit(1)
print("no violation observed")
sys.exit(0)
