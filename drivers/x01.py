"""X01 (not one of the twenty properties; growth of the specification) - the imaging chain as ONE exact behaviour.

Lentil.tla composes Optics (planes, propagation in Z[zeta_4]), Geometry-style rebinning and Detector (collection,
digitisation).  With quarter-wave phases and an integer 1/alpha the intensity is an exact rational, so TLC evaluates the
whole chain down to digital numbers; lentil runs  Wavefront * Pupil -> propagate_dft -> intensity -> rebin ->
collect_charge -> adc  and every stage is compared (digital numbers exactly, except where the value before floor() is an
exact integer - a floating-point tie).
"""
import random
from fractions import Fraction as Fr

import numpy as np

from harness.core import import_lentil
from harness.tlc import eval_cases, WORK
from harness.cyclo import phi_file
from harness import optics as ox
from harness import spectra as sp

LEVEL = 'model_checking'
EXTRA = True          # evidence goes to /verif/extras, not /verif/evidence


def run(ctx):
    lentil = import_lentil()
    rng = random.Random(101 + ctx.seed)
    cases = []
    for _ in range(150 if ctx.tier == 'quick' else 1500):
        K = 4
        m, n = rng.randint(2, 4), rng.randint(2, 4)
        amp = np.array([[rng.choice((0, 1, 1, 2, 3)) for _ in range(n)] for _ in range(m)])
        amp[0, 0] = amp[-1, -1] = 1
        opd = np.array([[rng.randrange(4) for _ in range(n)] for _ in range(m)])
        os_ = rng.choice((1, 2, 4))
        shape = (rng.randint(1, K // os_), rng.randint(1, K // os_))
        dx = (Fr(1, 2), Fr(1, 2))
        z, lam = Fr(4), Fr(1, 128)
        du = (lam * z * os_ / (K * dx[0]),) * 2
        det = {'os': os_, 'flux': sp.rj(rng.choice((1000, 640, 12345))), 'qe': sp.rj(Fr(rng.randint(1, 16), 16)),
               'gain': sp.rj(Fr(rng.randint(1, 24), 16)), 'sat': rng.choice(([], [200], [4000]))}
        cases.append({'id': len(cases), 'N': 4, 'wf': ox.wf(lam), 'thm': 'none',
                      'steps': [ox.plane('Pupil', amp=amp, opd=opd, px=dx, z=z), ox.dft(du, shape, None, os_)], 'det': det})
    exp, res = eval_cases('MC_Lentil', cases, nparts=8, env={'PHI_FILE': phi_file(4, WORK)}, timeout=900)
    ctx.add_tlc(res, 'MC_Lentil (imaging chain, exact)')
    f = lambda x: float(sp.rf(x))
    nties = 0
    for c in cases:
        e = exp[c['id']]
        real = ox.run_real(lentil, c)
        ctx.case(c['id'])
        if real[-1].get('err') != 'none' or e['err'] != 'none':
            ctx.violation({'stage': 'propagation', 'kind': 'outcome'}, {'expected': e['err'], 'observed': real[-1].get('err')}, case={'case': c})
            continue
        d = c['det']
        inten = real[-1]['intensity']
        ei = np.array([[f(x) for x in row] for row in e['intensity']])
        if not np.allclose(inten, ei, rtol=0, atol=1e-12 * (1 + ei.max())):
            ctx.violation({'stage': 'intensity'}, {'expected': ei, 'observed': inten}, case={'case': c})
            continue
        native = lentil.rebin(inten, d['os'])
        en = np.array([[f(x) for x in row] for row in e['native']])
        if native.shape != en.shape or not np.allclose(native, en, rtol=0, atol=1e-12 * (1 + en.max())):
            ctx.violation({'stage': 'rebin'}, {'expected': en, 'observed': native}, case={'case': c})
            continue
        photons = native[np.newaxis, ...] * f(d['flux'])
        el = lentil.detector.collect_charge(photons, [float(c['wf']['lam'][0]) / c['wf']['lam'][1] * 1e9], f(d['qe']))
        ee = np.array([[f(x) for x in row] for row in e['electrons']])
        if not np.allclose(el, ee, rtol=1e-12, atol=1e-9):
            ctx.violation({'stage': 'collect_charge'}, {'expected': ee, 'observed': el}, case={'case': c})
            continue
        dn = lentil.detector.adc(el, f(d['gain']), saturation_capacity=None if d['sat'] == [] else d['sat'][0])
        edn = np.array(e['dn'])
        tie = np.array(e['tie'], dtype=bool)
        nties += int(tie.sum())
        ok = (dn == edn) | (tie & ((dn == edn - 1) | (dn == edn + 1)))
        # values within float rounding of an integer that are not exact ties cannot occur: the data are dyadic
        if not np.all(ok):
            ctx.violation({'stage': 'adc'}, {'expected': edn, 'observed': dn, 'ties': tie.astype(int)}, case={'case': c})
    ctx.traces += len(cases)
    ctx.skipped['digital numbers at exact floating-point ties of floor() (either neighbour accepted)'] = nties
    ctx.sample({'case': cases[0], 'chain_by_TLC': {k: exp[0][k] for k in ('intensity', 'native', 'electrons', 'dn')}}, maxn=1)
    ctx.rule = 'seeded chains: pupil <= 4x4 with quarter-wave phases, K = 4, oversampling 1/2/4, every output shape, dyadic flux / QE / gain, optional saturation'
    ctx.assumptions += ['extra behaviour outside the twenty listed properties; not registered in MANIFEST.json']
