"""C18 finding 3: cosmic_rays raises IndexError for a large fraction of random states when
one side of the frame exceeds 32767 pixels (internal int16 casts overflow), instead of
returning a non-negative finite frame of the requested shape."""
import os, sys
sys.path.insert(0, os.environ.get('LENTIL_REPO', '.'))
import numpy as np
import lentil
from lentil.detector import cosmic_rays

print('lentil from', lentil.__file__)
px = (5e-6, 5e-6, 3e-6)        # pixel size used in the docstring example
nstates = 40
fail = False
for shape in ((2, 30000), (30000, 2), (2, 40000), (40000, 2), (2, 70000), (70000, 2), (64, 70000)):
    area = shape[0] * shape[1] * px[0] * px[1]
    ts = 10.5 / (area * 4e4)            # integration time giving 10 rays at the default rate
    ok = 0
    errors = {}
    for state in range(nstates):
        np.random.seed(state)
        try:
            f = cosmic_rays(shape, px, ts)
        except Exception as e:          # noqa
            errors.setdefault(type(e).__name__, (state, str(e)))
            continue
        if f.shape == tuple(shape) and np.all(np.isfinite(f)) and np.all(f >= 0):
            ok += 1
        else:
            errors.setdefault('bad frame', (state, ''))
    big = max(shape) > 32767
    print('shape %-14s ts=%-8.3g  valid frame for %2d of %d random states %s'
          % (shape, ts, ok, nstates, '' if ok == nstates else ' <-- first failure: np.random.seed(%d): %s' % list(errors.values())[0]))
    if ok != nstates:
        fail = True
if fail:
    print('\nFAIL: cosmic_rays does not return a frame for every random state when a frame side exceeds '
          '32767 pixels: pixel-boundary indices are cast to int16 in _cubeplane_ray_intersection / '
          '_process_cube_intersections and wrap around.')
    sys.exit(1)
print('no violation observed')
sys.exit(0)
