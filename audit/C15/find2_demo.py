"""C15 finding 2: Spectrum.integrate(start, end) silently drops the partial
intervals between the bounds and the nearest samples inside them, so it is not
exact for piecewise-linear data and power-preserving bins sum to the wrong number."""
import os, sys
sys.path.insert(0, os.environ['LENTIL_REPO'])
import numpy as np
from lentil.radiometry import Spectrum

bad = []
# flat spectrum of height 1 sampled every 10 nm: integral over [a, b] is b - a
f = Spectrum(np.arange(400, 501, 10.), np.ones(11))
got = f.integrate(405, 495, method='trapz')
if abs(got - 90) > 1e-9:
    bad.append(f"integrate(405, 495, 'trapz') of a flat unit spectrum = {got}, exact 90")
got = f.integrate(451, 459, method='trapz')
if abs(got - 8) > 1e-9:
    bad.append(f"integrate(451, 459, 'trapz') of a flat unit spectrum = {got}, exact 8")

# power preservation: bins must sum to the integral over the span of the centres
centres = np.arange(405, 496, 10.)        # span 405..495 -> integral 90
for ends in ('symmetric', 'inside'):
    b = f.bin(centres, interp_method='trapz', ends=ends, preserve_power=True)
    if abs(b.sum() - 90) > 1e-9:
        bad.append(f"bin(centres 405..495 step 10, trapz, ends={ends}) sums to {b.sum()}, "
                   f"integral of the spectrum over [405, 495] is 90")

# coarse spectrum, fine bins: every bin becomes zero
g = Spectrum([400., 500., 600.], [1., 1., 1.])
b = g.bin(np.arange(510, 591, 10.), interp_method='trapz')
if not np.all(b > 0):
    bad.append(f"flat unit spectrum sampled at 400/500/600, centres 510..590: bins {b} "
               f"(exact total 80); without preserve_power: "
               f"{g.bin(np.arange(510, 591, 10.), interp_method='trapz', preserve_power=False)}")

if bad:
    print("VIOLATION (integrate ignores the partial end intervals):")
    for x in bad:
        print(" -", x)
    sys.exit(1)
print("ok")
