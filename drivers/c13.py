"""C13 - spectrum arithmetic is pointwise, commutative and unit-agnostic.

B: pairs of spectra (identical / nested / partially overlapping / disjoint ranges; uniform or not) are written in
   every wavelength unit; the real operation is run, TLC (Spectrum!BinOp over exact rationals) is given the number of
   grid intervals the implementation chose, judges the grid (uniform union range, spacing in (d/2, d]) and computes
   the value at every grid point (op of each operand's linear interpolant, or the fill value outside its range);
   values are compared except at exact float ties (grid point = an operand's range end).  Commutativity, unit
   independence (same physical operands in other units), freshness of the result and integrity of both operands are
   checked on the real objects.
"""
import itertools
import random
from fractions import Fraction as Fr

import numpy as np

from harness.core import import_lentil
from harness.tlc import eval_cases
from harness import spectra as sp

LEVEL = 'model_checking'
OPS = {'add': 'add', 'sub': 'subtract', 'mul': 'multiply', 'div': 'divide'}


def phys_spectrum(rng):
    """wave in nanometres (Fractions), values quarter-integers >= 1/4"""
    lo = rng.choice((400, 410, 430, 500))
    kind = rng.choice(('uniform1', 'uniform2', 'uniform-half', 'nonuniform'))
    n = rng.randint(2, 6)
    if kind == 'uniform1':
        w = [Fr(lo + k) for k in range(n)]
    elif kind == 'uniform2':
        w = [Fr(lo + 2 * k) for k in range(n)]
    elif kind == 'uniform-half':
        w = [Fr(lo) + Fr(k, 2) for k in range(n)]
    else:
        steps = [rng.choice((1, 2, 3, Fr(1, 2))) for _ in range(n - 1)]
        w = [Fr(lo)]
        for s in steps:
            w.append(w[-1] + s)
    v = [Fr(rng.randint(1, 16), 4) for _ in range(n)]
    return w, v


def in_unit(w, v, unit, vu=None):
    f = Fr(10) ** (-9 - sp.EXP[unit])       # nm -> unit
    # a density (per unit wavelength) given per nanometre is f times smaller per `unit`... i.e. v / f
    return sp.spec_json(unit, vu, [x * f for x in w], [x / f for x in v] if vu else v)


def tlc_unit(u):
    """metres need denominators beyond TLC's 32-bit integers: the specification evaluates such an operand in nanometres
    (BinOp is covariant under a change of the wavelength unit - Spectrum!ToWave - so only the numbers on the wavelength axis
    are rescaled by the driver)"""
    return 'nm' if u == 'm' else u


def make_real(lentil, w, v, unit, vu=None):
    if vu:
        return sp.real_spectrum(lentil, in_unit(w, v, unit, vu))
    f = 10.0 ** (-9 - sp.EXP[unit])
    wave = np.array([float(x) for x in w]) * f if unit != 'nm' else np.array([float(x) for x in w])
    if all(x.denominator == 1 for x in v):
        val = np.array([int(x) for x in v])                      # integer dtype
    else:
        val = np.array([float(x) for x in v])
    if unit == 'nm' and all(x.denominator == 1 for x in w):
        wave = np.array([int(x) for x in w])
    return lentil.radiometry.Spectrum(wave, val, waveunit=unit, valueunit=None)


def gen(tier, seed):
    rng = random.Random(1313 + seed)
    cases = []
    for _ in range(700 if tier == 'quick' else 6000):
        w1, v1 = phys_spectrum(rng)
        rel = rng.choice(('same', 'any', 'any', 'disjoint'))
        if rel == 'same':
            w2, v2 = list(w1), [Fr(rng.randint(1, 16), 4) for _ in w1]
        else:
            w2, v2 = phys_spectrum(rng)
            if rel == 'disjoint':
                shift = (w1[-1] - w2[0]) + rng.choice((1, 3))
                w2 = [x + shift for x in w2]
        units = ('m', 'um', 'nm', 'angstrom')
        u1, u2 = rng.choice(units), rng.choice(units)
        if rng.random() < 0.4:
            u2 = u1
        op = rng.choice(list(OPS))
        how = rng.choice(('min', 'min', 'left', 'right', 'float'))
        fill = Fr(1) if op == 'div' else rng.choice((Fr(0), Fr(0), Fr(1), Fr(5, 2)))
        # a unitless transmission times a flux density (either order): only for products, and not in metres (the specification
        # evaluates metre operands in nanometres, which would rescale a density)
        vus = rng.choice(((None, None), (None, None), (None, 'photlam'), ('photlam', None))) if (op == 'mul' and 'm' not in (u1, u2)) else (None, None)
        if op in ('add', 'sub', 'div') and 'm' not in (u1, u2) and rng.random() < 0.25:
            # two flux densities in the same flux unit: their sum and difference are densities, their quotient is a pure number
            vus = rng.choice((('photlam', 'photlam'), ('wlam', 'wlam')))
        if vus != (None, None) and op != 'div':
            fill = Fr(0)            # (a non-zero fill is a number in the result's own units: it cannot be the same density in two units)
        cases.append({'k': 'binop', 'w1': w1, 'v1': v1, 'w2': w2, 'v2': v2, 'u1': u1, 'u2': u2, 'op': op, 'how': how, 'fill': fill, 'vus': vus})
    return cases


def run(ctx):
    lentil = import_lentil()
    raw = gen(ctx.tier, ctx.seed)
    cases = []
    reals = {}
    skipped = 0
    for c in raw:
        vu1, vu2 = c.get('vus', (None, None))
        s1j = in_unit(c['w1'], c['v1'], tlc_unit(c['u1']), vu1)
        s2j = in_unit(c['w2'], c['v2'], tlc_unit(c['u2']), vu2)
        s1, s2 = make_real(lentil, c['w1'], c['v1'], c['u1'], vu1), make_real(lentil, c['w2'], c['v2'], c['u2'], vu2)
        wscale = 10.0 ** (sp.EXP[c['u1']] - sp.EXP[tlc_unit(c['u1'])])      # real wavelength numbers -> the specification's unit
        d1, d2 = sp.state_digest(s1), sp.state_digest(s2)
        how = c['how']
        dphys = None
        if how == 'float':
            # requested sampling, in the unit of the left operand
            dphys = Fr(1, 2) * Fr(10) ** (-9 - sp.EXP[tlc_unit(c['u1'])])
            how_arg = float(Fr(1, 2)) * 10.0 ** (-9 - sp.EXP[c['u1']])
        else:
            how_arg = how
        sig = {'op': c['op'], 'units': 'same' if c['u1'] == c['u2'] else 'mixed', 'left_unit_nm': c['u1'] == 'nm', 'sampling': c['how']}
        try:
            r = getattr(s1, OPS[c['op']])(s2, sampling=how_arg, fill_value=float(c['fill']))
        except Exception as ex:
            ctx.violation(dict(sig, kind=type(ex).__name__), {'s1': s1j, 's2': s2j, 'error': repr(ex)[:200]}, case=None)
            continue
        cid = len(cases)
        # operands untouched, result fresh
        if sp.state_digest(s1) != d1 or sp.state_digest(s2) != d2:
            ctx.violation(dict(sig, kind='operand-modified'), {'s1': s1j, 's2': s2j, 's1_unit_after': s1.waveunit, 's2_unit_after': s2.waveunit}, case=None)
        if r is s1 or r is s2 or np.shares_memory(r.wave, s1.wave) or np.shares_memory(r.value, s1.value):
            ctx.violation(dict(sig, kind='result-not-fresh'), {}, case=None)
        sig['value_units'] = 'mixed' if vu1 != vu2 else 'none'
        if r.waveunit != c['u1']:
            ctx.violation(dict(sig, kind='result-unit'), {'expected': c['u1'], 'observed': r.waveunit}, case=None)
        num = len(r.wave) - 1
        if num > 20000:               # (no case of this domain needs more than ~1000 points; keeps the model's input bounded)
            ctx.violation(dict(sig, kind='grid-spacing'), {'points': num + 1, 'note': 'grid far finer than any operand or request'}, case=None)
            continue
        if num < 1:
            ctx.violation(dict(sig, kind='degenerate-grid'), {'wave': r.wave.tolist()}, case=None)
            continue
        cases.append({'id': cid, 'k': 'binop', 's1': s1j, 's2': s2j, 'op': c['op'], 'num': num,
                      'how': c['how'], 'd': sp.rj(dphys) if dphys is not None else [0, 1], 'fill': sp.rj(c['fill'])})
        reals[cid] = (c, r, s1, s2, sig, wscale)
        # commutativity on the real objects (+ and x)
        if c['op'] in ('add', 'mul') and c['how'] in ('min', 'float'):
            try:
                r2 = getattr(s2, OPS[c['op']])(s1, sampling=how_arg if c['u1'] == c['u2'] or how == 'min' else
                                               0.5 * 10.0 ** (-9 - sp.EXP[c['u2']]), fill_value=float(c['fill']))
            except Exception as ex:
                ctx.violation(dict(sig, kind=type(ex).__name__, order='swapped'), {'s1': s1j, 's2': s2j, 'error': repr(ex)[:200]}, case=None)
                continue
            f = 10.0 ** (sp.EXP[c['u2']] - sp.EXP[c['u1']])         # r2 is expressed in u2
            if len(r2.wave) != len(r.wave) or not np.allclose(r2.wave * f, r.wave, rtol=1e-9, atol=0) or \
                    not np.allclose(r2.value / (f if r2.valueunit else 1.0), r.value, rtol=1e-9, atol=1e-12) or r2.valueunit != r.valueunit:
                # exact ties may differ between the two orders only at range ends; judged against the spec below instead
                reals[cid] = reals[cid] + (r2,)
    exp, res = eval_cases('MC_Spectrum', cases, nparts=12, timeout=1500)
    ctx.add_tlc(res, 'MC_Spectrum (BinOp semantics)')
    nties = 0
    for cid, tup in reals.items():
        c, r, s1, s2, sig, wscale = tup[:6]
        e = exp[cid]
        ctx.case((c['op'], c['u1'], c['u2'], c['how'], str(c['w1']), str(c['w2'])), nontrivial=(c['w1'] != c['w2'] or c['u1'] != c['u2']))
        if not e['gridok']:
            ctx.violation(dict(sig, kind='grid-spacing'), {'s1': cases[cid]['s1'], 's2': cases[cid]['s2'], 'num': cases[cid]['num']},
                          case={'case': cases[cid]})
            continue
        ew = np.array([float(sp.rf(x)) for x in e['w']])
        ev = np.array([float(sp.rf(x)) for x in e['v']])
        ties = np.array(e['ties'], dtype=bool)
        exp_vu = None if e['vu'] == 'none' else e['vu']
        if r.valueunit != exp_vu:
            ctx.violation(dict(sig, kind='result-value-unit'), {'expected': exp_vu, 'observed': r.valueunit, 'left': c.get('vus', (None, None))[0], 'right': c.get('vus', (None, None))[1]},
                          case={'case': cases[cid]})
            continue
        if not np.allclose(r.wave * wscale, ew, rtol=1e-12, atol=0):
            ctx.violation(dict(sig, kind='grid'), {'expected': ew, 'observed': r.wave * wscale}, case={'case': cases[cid]})
            continue
        # an exact tie is a grid point that equals a range end: only there may float rounding pick the other branch;
        # on grids that are exact in floating point (nanometre / angstrom integers and halves) nothing is exempt
        # (no conversion, or nm -> angstrom which multiplies by 10 exactly; angstrom -> nm multiplies by the inexact 0.1)
        exact_grid = (c['u1'] == c['u2'] and c['u1'] in ('nm', 'angstrom')) or (c['u1'] == 'angstrom' and c['u2'] == 'nm')
        mask = np.ones(len(ev), bool) if exact_grid else ~ties
        nties += int((~mask).sum())
        err = np.abs(r.value - ev)
        if not np.all(err[mask] <= 1e-9 * (1 + np.abs(ev[mask]))):
            j = int(np.argmax(np.where(mask, err, 0)))
            ctx.violation(dict(sig, kind='value'), {'s1': cases[cid]['s1'], 's2': cases[cid]['s2'], 'at_wave': float(ew[j]),
                                                    'expected': float(ev[j]), 'observed': float(r.value[j]), 'fill': float(c['fill'])},
                          case={'case': cases[cid]})
        if len(tup) > 6:
            r2 = tup[6]
            f = 10.0 ** (sp.EXP[c['u2']] - sp.EXP[c['u1']])
            if len(r2.wave) != len(r.wave) and not exact_grid:
                ctx.skip('commutativity: the two orders rounded the number of grid points differently (inexact units)')
                continue
            bad = len(r2.wave) != len(r.wave) or not np.allclose(r2.wave * f, r.wave, rtol=1e-9, atol=0) or \
                not np.all(np.abs(r2.value / (f if r2.valueunit else 1.0) - r.value)[mask] <= 1e-9 * (1 + np.abs(ev[mask]))) or r2.valueunit != r.valueunit
            # (a density per unit of u2 is f times the density per unit of u1: the two orders describe the same spectrum)
            if bad:
                ctx.violation(dict(sig, kind='not-commutative'), {'s1': cases[cid]['s1'], 's2': cases[cid]['s2']}, case={'case': cases[cid]})
    # scalars and equal-length vectors act element-wise on the unchanged grid; pow with a scalar
    rng = random.Random(31 + ctx.seed)
    for _ in range(150):
        w, v = phys_spectrum(rng)
        u = rng.choice(('m', 'um', 'nm', 'angstrom'))
        sj = in_unit(w, v, tlc_unit(u))
        s = make_real(lentil, w, v, u)
        d0 = sp.state_digest(s)
        k = rng.choice((2, 0.5, 3.0, 0, 1))          # 0 and 1 are the identities of + and x: the result is still a NEW spectrum
        vec = [float(rng.randint(1, 5)) for _ in w]
        vals = np.array([float(x) for x in v])
        for name, other, expect in (('add', k, vals + k), ('multiply', k, vals * k), ('subtract', vec, vals - vec), ('divide', vec, vals / vec),
                                    ('power', 2, vals ** 2), ('multiply', np.array(vec), vals * vec)):
            r = getattr(s, name)(other)
            ctx.case(('scalar', name, u, str(w)), nontrivial=True)
            if not (np.array_equal(r.wave, s.wave) and np.allclose(r.value, expect, rtol=1e-12) and r.waveunit == u and r is not s
                    and not np.shares_memory(r.value, s.value) and not np.shares_memory(r.wave, s.wave)):
                ctx.violation({'kind': 'scalar-or-vector-operand', 'op': name}, {'spectrum': sj, 'other': other}, case=None)
        # a scalar is a scalar whatever its numeric type (numpy integers and single-precision floats as read from a file, booleans)
        for kk in (np.int64(2), np.int32(3), np.float32(0.5), np.uint8(2), True, np.bool_(True)):
            for name, fn in (('add', np.add), ('multiply', np.multiply), ('subtract', np.subtract), ('divide', np.divide)):
                ctx.case(('scalar-type', name, type(kk).__name__, u))
                try:
                    r = getattr(s, name)(kk)
                    ok = np.array_equal(r.wave, s.wave) and np.allclose(r.value, fn(vals, float(kk)), rtol=1e-6) and r.waveunit == u
                    err = None
                except Exception as ex:
                    ok, err = False, repr(ex)[:160]
                if not ok:
                    ctx.violation({'kind': 'scalar-operand-type', 'op': name, 'scalar_type': type(kk).__name__}, {'spectrum': sj, 'error': err}, case=None)
        # addition and multiplication are commutative - also written with the scalar on the left (python and numpy scalars)
        for sym, left, expect in (('+', lambda a: a + s, lambda a: vals + a), ('*', lambda a: a * s, lambda a: vals * a)):
            for kk in (k, np.float64(k), int(k) if float(k).is_integer() else k):
                ctx.case(('scalar-left', sym, type(kk).__name__, u, str(w)))
                try:
                    r = left(kk)
                    ok = isinstance(r, type(s)) and np.array_equal(r.wave, s.wave) and np.allclose(r.value, expect(float(kk)), rtol=1e-12) and r.waveunit == u
                    err = None
                except Exception as ex:
                    ok, err = False, repr(ex)[:160]
                if not ok:
                    ctx.violation({'kind': 'scalar-on-the-left', 'op': sym, 'scalar_type': 'numpy' if isinstance(kk, np.generic) else 'python'},
                                  {'spectrum': sj, 'scalar': float(kk), 'error': err}, case=None)
        if sp.state_digest(s) != d0:
            ctx.violation({'kind': 'operand-modified', 'op': 'scalar'}, {'spectrum': sj}, case=None)
        # the same values stored in a narrow type (counts read from a file as uint8 / int16, a boolean pass-band): element-wise
        # arithmetic with a scalar or a vector is arithmetic on the VALUES, as it is when the other operand is a spectrum
        vi = np.array([int(x * 4) for x in v])                        # quarter-integers x 4: 4..64
        for dt in (np.uint8, np.int16, np.bool_):
            arr = (vi > 20) if dt is np.bool_ else vi.astype(dt)
            sn = lentil.radiometry.Spectrum(np.asarray(s.wave, dtype=float), arr, waveunit=u, valueunit=None)
            sf_ = lentil.radiometry.Spectrum(np.asarray(s.wave, dtype=float), arr.astype(float), waveunit=u, valueunit=None)
            for name, other in (('add', 200), ('multiply', 5), ('subtract', 100), ('multiply', 1000), ('add', True), ('power', -1), ('subtract', [70] * len(w))):
                ctx.case(('narrow-values', name, np.dtype(dt).name, str(other)[:8], u))
                if name == 'power' and dt is np.bool_:
                    continue
                try:
                    rn, rf = getattr(sn, name)(other), getattr(sf_, name)(other)
                    ok = np.allclose(np.asarray(rn.value, dtype=float), rf.value, rtol=1e-12, equal_nan=True)
                    err = None
                except Exception as ex:
                    ok, err = False, repr(ex)[:160]
                if not ok:
                    ctx.violation({'kind': 'scalar-operand-depends-on-value-dtype', 'op': name, 'dtype': np.dtype(dt).kind},
                                  {'values': arr.tolist(), 'other': other, 'error': err}, case=None)
    # an operand is what it is NOW: used once, edited in place by its owner (a sample overwritten, its unit label corrected), used again
    for _ in range(25):
        w1, v1 = phys_spectrum(rng)
        w2, v2 = phys_spectrum(rng)
        # (operands in the SAME unit are not converted, hence not copied, before they are sampled)
        u1, u2 = rng.choice((('nm', 'um'), ('um', 'nm'), ('nm', 'angstrom'), ('angstrom', 'um'), ('nm', 'nm'), ('um', 'um'), ('nm', 'nm')))
        a = make_real(lentil, w1, v1, u1)
        b = make_real(lentil, w2, [float(x) for x in v2] and v2, u2)
        b = lentil.radiometry.Spectrum(np.asarray(b.wave, dtype=float), np.asarray(b.value, dtype=float), waveunit=u2, valueunit=None)
        op = rng.choice(('add', 'multiply'))
        ctx.case(('operand-edited-between-uses', op, u1, u2, str(w1), str(w2)))
        try:
            getattr(a, op)(b)                                  # first use
            edit = rng.choice(('value-in-place', 'waveunit-label')) if (u2 in ('nm', 'angstrom') and u1 != u2) else rng.choice(('value-in-place', 'value-scaled-in-place', 'wave-shifted-in-place'))
            if edit == 'value-in-place':
                b.value[len(b.value) // 2:] = 0.25
            elif edit == 'value-scaled-in-place':
                b.value *= 2.0
            elif edit == 'wave-shifted-in-place':
                b.wave += (b.wave[1] - b.wave[0]) / 4
            else:
                b.waveunit = 'angstrom' if u2 == 'nm' else 'nm'          # (a factor 10: the common grid stays small)
            fresh = lentil.radiometry.Spectrum(np.array(b.wave, copy=True), np.array(b.value, copy=True), waveunit=b.waveunit, valueunit=None)
            r1, r2 = getattr(a, op)(b), getattr(a, op)(fresh)
            ok = len(r1.wave) == len(r2.wave) and np.allclose(r1.wave, r2.wave, rtol=1e-12) and np.allclose(r1.value, r2.value, rtol=1e-12, atol=1e-14)
            err = None
        except Exception as ex:
            ok, err, edit = False, repr(ex)[:160], 'raised'
        if not ok:
            ctx.violation({'kind': 'operand-used-as-it-was-earlier', 'op': op, 'edit': edit}, {'units': [u1, u2], 'error': err}, case=None)
    # complex scalars and vectors are operands like any other: the imaginary part takes part in the operation
    for _ in range(10):
        w, v = phys_spectrum(rng)
        s_ = make_real(lentil, w, v, 'nm')
        vals_ = np.array([float(x) for x in v])
        for name, other, expect in (('multiply', np.complex128(1 + 2j), vals_ * (1 + 2j)), ('multiply', np.complex64(2j), vals_ * 2j),
                                    ('add', np.array([1j] * len(w)), vals_ + 1j), ('multiply', np.array(0.5 - 1j), vals_ * (0.5 - 1j))):
            ctx.case(('complex-operand', name, str(other)[:12], str(w)))
            import warnings as _w3
            try:
                with _w3.catch_warnings():
                    _w3.simplefilter('ignore')
                    r_ = getattr(s_, name)(other)
                ok = np.allclose(np.asarray(r_.value), expect, rtol=1e-6)
            except TypeError:
                ok = True                                  # (an explicit refusal of complex operands is not a wrong value)
            except Exception:
                ok = False
            if not ok:
                ctx.violation({'kind': 'complex-operand-loses-its-imaginary-part', 'op': name}, {'operand': str(other)[:40]}, case=None)
    # a grid held in EXTENDED precision (np.longdouble, e.g. read from a table of that type) is a grid like any other: "all pairs of spectra"
    if np.dtype(np.longdouble).itemsize > 8:
        S_ = lentil.radiometry.Spectrum
        for _ in range(6):
            w1, v1 = phys_spectrum(rng)
            w2, v2 = phys_spectrum(rng)
            fw1, fv1 = np.array([float(x) for x in w1]), np.array([float(x) for x in v1])
            fw2, fv2 = np.array([float(x) for x in w2]), np.array([float(x) for x in v2])
            for op in ('add', 'multiply', 'subtract'):
                for which in ('both', 'left', 'right'):
                    ctx.case(('extended-precision-grid', op, which, str(w1), str(w2)))
                    a_ = S_(fw1.astype(np.longdouble) if which in ('both', 'left') else fw1, fv1, waveunit='nm', valueunit=None)
                    b_ = S_(fw2.astype(np.longdouble) if which in ('both', 'right') else fw2, fv2, waveunit='nm', valueunit=None)
                    ref = getattr(S_(fw1, fv1, waveunit='nm', valueunit=None), op)(S_(fw2, fv2, waveunit='nm', valueunit=None))
                    try:
                        got = getattr(a_, op)(b_)
                        ok = len(got.wave) == len(ref.wave) and np.allclose(np.asarray(got.wave, dtype=float), ref.wave, rtol=1e-12) and \
                            np.allclose(np.asarray(got.value, dtype=float), ref.value, rtol=1e-9, atol=1e-12)
                        err = None
                    except Exception as ex:
                        ok, err = False, repr(ex)[:160]
                    if not ok:
                        ctx.violation({'kind': 'extended-precision-grid', 'op': op, 'operand': which}, {'error': err}, case=None)
    # operands written in DIFFERENT flux units (the same physical spectrum in photlam and in wlam / flam): the sum, the difference
    # and the quotient describe the same physical spectrum as with both operands in one unit, in either order (conversions: C14)
    nmix = 0
    for _ in range(40):
        w1, v1 = phys_spectrum(rng)
        w2, v2 = phys_spectrum(rng)
        u1, u2 = rng.choice(('nm', 'um', 'angstrom')), rng.choice(('nm', 'um', 'angstrom'))
        x1, x2 = rng.choice(('photlam', 'wlam', 'flam')), rng.choice(('photlam', 'wlam', 'flam'))
        a = make_real(lentil, w1, v1, u1, 'photlam')
        b = make_real(lentil, w2, v2, u2, 'photlam')
        a.to(x1)
        for op in ('add', 'subtract', 'divide'):
            nmix += 1
            ctx.case(('mixed-flux-units', op, u1, u2, x1, x2, str(w1), str(w2)))
            bx = b.copy()
            bx.to(x2)
            bref = b.copy()
            bref.to(x1)
            try:
                fv = 1.0 if op == 'divide' else 0.0
                r, ref = getattr(a, op)(bx, fill_value=fv), getattr(a, op)(bref, fill_value=fv)
                ok = r.valueunit == ref.valueunit and len(r.wave) == len(ref.wave) and np.allclose(r.wave, ref.wave, rtol=1e-12) and \
                    np.allclose(r.value, ref.value, rtol=1e-9, atol=1e-12 * np.abs(ref.value).max())
                ok = ok and (r.valueunit is None if op == 'divide' else r.valueunit == x1)
                err = None
            except Exception as ex:
                ok, err = False, repr(ex)[:160]
            if not ok:
                ctx.violation({'kind': 'flux-unit-dependent', 'op': op, 'same_flux_unit': x1 == x2}, {'left': x1, 'right': x2, 'waveunits': [u1, u2], 'error': err}, case=None)
    ctx.extra['mixed_flux_unit_cases'] = nmix
    # quadratic / cubic interpolation is outside the model: only the relational clauses (commutativity, independence of the unit
    # the operands are written in, operands untouched) are checked, on nested ranges whose ends are exact in every unit used
    nrel = 0
    for _ in range(60):
        n1, n2 = rng.randint(5, 8), rng.randint(5, 8)
        w1 = [Fr(400 + 2 * k) for k in range(n1)]
        w2 = [Fr(402 + k) for k in range(min(n2, 2 * n1 - 3))]
        v1 = [Fr(rng.randint(1, 16), 4) for _ in w1]
        v2 = [Fr(rng.randint(1, 16), 4) for _ in w2]
        method = rng.choice(('quadratic', 'cubic'))
        op = rng.choice(('add', 'multiply'))
        a_nm, b_nm = make_real(lentil, w1, v1, 'nm'), make_real(lentil, w2, v2, 'nm')
        ref = getattr(a_nm, op)(b_nm, method=method)
        rev = getattr(b_nm, op)(a_nm, method=method)
        nrel += 1
        ctx.case(('relational', method, op, str(w1), str(w2)))
        if len(ref.wave) != len(rev.wave) or not np.allclose(ref.wave, rev.wave, rtol=1e-12) or not np.allclose(ref.value, rev.value, rtol=1e-9, atol=1e-12):
            ctx.violation({'kind': 'not-commutative', 'method': method, 'op': op}, {'w1': [float(x) for x in w1], 'w2': [float(x) for x in w2]}, case=None)
        for u in ('angstrom',):                        # nm -> angstrom is exact in floating point (x10)
            a_u, b_u = make_real(lentil, w1, v1, u), make_real(lentil, w2, v2, u)
            ru = getattr(a_u, op)(b_u, method=method)
            if len(ru.wave) != len(ref.wave) or not np.allclose(ru.wave / 10.0, ref.wave, rtol=1e-12) or not np.allclose(ru.value, ref.value, rtol=1e-8, atol=1e-10):
                ctx.violation({'kind': 'unit-dependent', 'method': method, 'op': op}, {'w1': [float(x) for x in w1], 'w2': [float(x) for x in w2]}, case=None)
    # an operand given by a law instead of samples (Blackbody) is still defined on its own wavelength range only
    nbb = 0
    for _ in range(40):
        lo = rng.choice((400, 450, 500))
        nb = rng.randint(4, 9)
        T = rng.choice((3000, 5000, 9000))
        bb = lentil.radiometry.Blackbody(np.arange(lo, lo + nb, dtype=float), T, waveunit='nm', valueunit='photlam')
        ext = (rng.randint(1, 5), rng.randint(1, 5))
        ow = np.arange(lo - ext[0], lo + nb - 1 + ext[1] + 1, dtype=float)
        other = lentil.radiometry.Spectrum(ow, np.full(ow.shape, 2.0), waveunit='nm', valueunit='photlam')
        fill = rng.choice((0.0, 1.5))
        for op, fn in (('multiply', np.multiply), ('add', np.add)):
            for left_bb in (True, False):
                nbb += 1
                ctx.case(('blackbody', lo, nb, T, ext, fill, op, left_bb))
                try:
                    r = getattr(bb, op)(other, fill_value=fill) if left_bb else getattr(other, op)(bb, fill_value=fill)
                except Exception as ex:
                    ctx.violation({'kind': 'blackbody-operand-' + type(ex).__name__, 'op': op}, {'error': repr(ex)[:200]}, case=None)
                    continue
                inside = (r.wave >= lo) & (r.wave <= lo + nb - 1)
                law = lentil.radiometry.planck_radiance(r.wave, T, waveunit='nm', valueunit='photlam') if hasattr(lentil.radiometry, 'planck_radiance') else None
                e_out = fn(fill, 2.0)
                e_in = fn(np.interp(r.wave, bb.wave, bb.value), 2.0)
                ok_out = np.allclose(r.value[~inside], e_out, rtol=1e-12, atol=0)
                # inside its range the law itself or its piecewise-linear samples are both faithful readings of the operand
                ok_in = np.allclose(r.value[inside], e_in[inside], rtol=1e-3, atol=0)
                if not (ok_out and ok_in):
                    ctx.violation({'kind': 'blackbody-operand', 'op': op, 'where': 'outside-its-range' if not ok_out else 'inside'},
                                  {'range_nm': [lo, lo + nb - 1], 'other_range_nm': [float(ow[0]), float(ow[-1])], 'fill': fill, 'T': T,
                                   'observed_outside': r.value[~inside][:6], 'expected_outside': float(e_out)}, case=None)
    ctx.extra['blackbody_operand_cases'] = nbb
    ctx.extra['relational_cases_for_spline_interpolation'] = nrel
    ctx.traces += len(cases)
    ctx.skipped['exact float ties at operand range ends'] = nties
    ctx.sample({'case': cases[0], 'expected_by_TLC': exp[0]}, maxn=1)
    ctx.rule = ('pairs of spectra on nanometre-commensurate grids (uniform step 1, 2, 1/2 or non-uniform; identical, overlapping, nested, '
                'disjoint ranges) written in each of m/um/nm/angstrom independently, four operators, sampling min/left/right/float, fill 0/1/2.5; '
                'distinct by (operator, units, sampling, grids); non-trivial = different grids or different units')
    ctx.assumptions += ['linear interpolation only for value checks; quadratic/cubic interpolants are outside the model',
                        'grid points equal to a range end of an operand are float ties on grids that are not exact in binary floating point']


def replay(ctx, rec):
    print('re-run ./check C13 with the same VERIF_SEED; the case is: ', rec.get('case'))
