"""C12 finding 2: zernike_compose silently treats a (1, k) row vector of
coefficients as k piston coefficients, so compose -> fit does not return the
coefficients (a (k, 1) column vector and a 1-D vector both work).

exit code 1 = violation observed, 0 = not observed.
"""
import os
import sys

sys.path.insert(0, os.environ.get('LENTIL_REPO', '.'))

import numpy as np
import lentil

print('lentil from', lentil.__file__)

mask = lentil.circle((64, 64), 25, antialias=False)
modes = [1, 2, 3, 4]
c = np.array([0.0, 1.0, 2.0, 3.0])

ref = lentil.zernike_compose(mask, c)                    # 1-D vector
col = lentil.zernike_compose(mask, c[:, np.newaxis])     # (4, 1) column vector
row = lentil.zernike_compose(mask, c[np.newaxis, :])     # (1, 4) row vector

fit_ref = lentil.zernike_fit(ref, mask, modes)
fit_col = lentil.zernike_fit(col, mask, modes)
fit_row = lentil.zernike_fit(row, mask, modes)

print('coefficients                 :', c)
print('fit(compose(1-D vector))     :', np.round(fit_ref, 12))
print('fit(compose((4,1) column))   :', np.round(fit_col, 12))
print('fit(compose((1,4) row))      :', np.round(fit_row, 12))
print('max |row - sum(c)*piston|    :',
      np.abs(row - c.sum() * lentil.zernike(mask, 1)).max())

ok_ref = np.allclose(fit_ref, c, atol=1e-10)
ok_col = np.allclose(fit_col, c, atol=1e-10)
ok_row = np.allclose(fit_row, c, atol=1e-10)

if ok_ref and ok_col and not ok_row:
    print('\nVIOLATION of C12: a row vector of coefficients is accepted without '
          'complaint but every coefficient is applied to mode 1 (piston): the '
          'composed OPD is sum(c) * Z1 and the fit returns [sum(c), 0, 0, 0].')
    sys.exit(1)
print('no violation observed')
sys.exit(0)
