"""X06 (growth of the specification beyond the twenty properties) - wfe.translation_defocus as a closed formula.

WFE.tla states the map exactly (rationals): Noll-4 shape 2 rho^2 - 1 on the non-antialiased circle circumscribing the
mask's bounding box, scaled to a peak-to-valley of translation / (8 F#^2) over the array, times the mask.  TLC checks
ThmPV, ThmLinear, ThmFNumber, ThmZero, ThmSign on every case and emits the map; lentil.translation_defocus is called
with the same mask, F-number and translation and compared sample by sample.
"""
import random
from fractions import Fraction as Fr

import numpy as np

from harness.core import import_lentil
from harness.tlc import eval_cases
from harness import spectra as sp

LEVEL = 'model_checking'
EXTRA = True


def make_mask(lentil, rng):
    m, n = rng.choice(((7, 7), (8, 8), (9, 7), (8, 10), (6, 9), (11, 11)))
    kind = rng.choice(('circle', 'circle', 'annulus', 'box', 'random', 'offcentre'))
    c = (m // 2, n // 2)
    rr, cc = np.mgrid[:m, :n]
    if kind in ('circle', 'annulus'):
        r = rng.randint(2, min(m, n) // 2 - 1)
        a = ((rr - c[0]) ** 2 + (cc - c[1]) ** 2 <= r * r + r).astype(int)
        if kind == 'annulus':
            a[(rr - c[0]) ** 2 + (cc - c[1]) ** 2 <= 1] = 0
    elif kind == 'box':
        h, w = rng.randint(1, m // 2 - 1), rng.randint(1, n // 2 - 1)
        a = ((abs(rr - c[0]) <= h) & (abs(cc - c[1]) <= w)).astype(int)
    elif kind == 'offcentre':
        r = rng.randint(1, 2)
        c2 = (c[0] + rng.choice((-1, 0, 1)), c[1] + rng.choice((-1, 1)))
        a = ((rr - c2[0]) ** 2 + (cc - c2[1]) ** 2 <= r * r + r).astype(int)
    else:
        a = np.array([[int(rng.random() < 0.6) for _ in range(n)] for _ in range(m)])
        a[c[0], c[1]] = 1
        a[c[0] - 1, c[1] + 1] = 1
    return kind, a


def run(ctx):
    lentil = import_lentil()
    rng = random.Random(606 + ctx.seed)
    cases, meta = [], []
    while len(cases) < (60 if ctx.tier == 'quick' else 600):
        kind, a = make_mask(lentil, rng)
        if np.count_nonzero(a) < 2:
            continue
        F = Fr(rng.choice((1, 2, 4, 8)), rng.choice((1, 2)))              # (small rationals: TLC's integers are 32-bit)
        delta = Fr(rng.choice((-5, -3, 1, 7)), rng.choice((1, 2, 4)))
        k = Fr(rng.choice((-2, 3, 1)), rng.choice((1, 2)))
        cases.append({'id': len(cases), 'mask': a.tolist(), 'F': sp.rj(F), 'delta': sp.rj(delta), 'k': sp.rj(k)})
        meta.append((kind, a, F, delta))
    exp, res = eval_cases('MC_WFE', cases, nparts=10, timeout=1500)
    ctx.add_tlc(res, 'MC_WFE (ThmPV, ThmLinear, ThmFNumber, ThmZero, ThmSign)')
    f = lambda x: float(sp.rf(x))
    ncov = 0
    for c, (kind, a, F, delta) in zip(cases, meta):
        e = exp[c['id']]
        ctx.case(c['id'])
        ncov += bool(e['covers'])
        want = np.array([[f(x) for x in row] for row in e['opd']])
        sig = {'mask': kind, 'covers_circle': bool(e['covers'])}
        for mask_form in (a, a.astype(float), a.astype(bool)):
            try:
                got = lentil.translation_defocus(mask_form, float(F), float(delta))
            except Exception as ex:
                ctx.violation(dict(sig, kind='raised', mask_dtype=str(mask_form.dtype)), {'error': repr(ex)[:200]}, case={'case': c})
                break
            if got.shape != want.shape or not np.allclose(got, want, rtol=1e-9, atol=1e-12 * np.abs(want).max()):
                ctx.violation(dict(sig, kind='value', mask_dtype=str(mask_form.dtype)), {'expected': want, 'observed': got}, case={'case': c})
                break
    ctx.traces += len(cases)
    ctx.skipped['(information) cases whose mask holds the whole circumscribing circle (ThmPV / ThmSign not vacuous)'] = ncov
    ctx.sample({'case': cases[0], 'map_by_TLC': exp[0]['opd'][len(exp[0]['opd']) // 2]}, maxn=1)
    ctx.rule = ('masks on 6 array shapes (circles, annuli, boxes, off-centre discs, random supports; int, float and bool); F# in {1/2, 1, 2, 4, 8}; '
                'translations of either sign; every sample compared')
    ctx.assumptions += ['extra behaviour outside the twenty listed properties; not registered in MANIFEST.json']
