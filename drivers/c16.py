"""C16 - detector chain: right quantum efficiency at every pixel, exact digitisation.

C (code -> spec): collect_charge (scalar / vector / Spectrum efficiencies in any wavelength unit), collect_charge_bayer
   (all square patterns of size 1 and 2, seeded 3x3, oversampling 1..4, flattened and per channel) and adc (four gain
   forms, polynomial orders 1..3, saturation, negative inputs, dtypes, warning on/off) are called on exact data
   (integer photons/electrons, dyadic efficiencies and gains); each call with everything it returned, the warnings it
   raised and the caller's frame afterwards is an event that TLC validates exactly against Detector.tla, together with
   the theorems (channels sum to the flattened image, equal efficiencies = monochrome, monotone digitisation).
"""
import itertools
import json
import random
import warnings
from fractions import Fraction as Fr

import numpy as np

from harness.core import import_lentil
from harness.tlc import validate_trace
from harness import spectra as sp

LEVEL = 'model_checking'


def rmat(a):
    """float/int matrix -> matrix of [num, den]; every entry must be an exact small dyadic"""
    out = []
    for row in np.asarray(a):
        r = []
        for x in row:
            f = Fr(float(x))
            if f.denominator > 2 ** 20 or abs(f.numerator) >= 2 ** 31:
                raise OverflowError(x)
            r.append([f.numerator, f.denominator])
        out.append(r)
    return out


def record(lentil, tier, seed):
    rng = random.Random(1616 + seed)
    nr = np.random.default_rng(1616 + seed)
    q = tier == 'quick'
    d = lentil.detector
    ev = []

    def add(e):
        e['id'] = len(ev)
        ev.append(e)
    dy = lambda: Fr(rng.randint(0, 16), 16)
    # ---- collect_charge: three representations of the same efficiency -----------------------------------------
    for _ in range(120 if q else 1000):
        nw = rng.randint(1, 4)
        m, n = rng.randint(1, 4), rng.randint(1, 4)
        ph = nr.integers(0, 50, size=(nw, m, n))
        wave_nm = sorted(rng.sample(range(400, 420), nw))
        kind = rng.choice(('scalar', 'vector', 'spectrum', 'spectrum'))
        unit = rng.choice(('nm', 'um', 'angstrom'))
        f = Fr(10) ** (-9 - sp.EXP[unit])
        waves_u = [Fr(w) * f for w in wave_nm]
        base = {'act': 'collect', 'ph': ph.tolist(), 'wave': [sp.rj(w) for w in waves_u], 'wexp': sp.EXP[unit], 'qekind': kind}
        try:
            if kind == 'scalar':
                qv = dy()
                out = d.collect_charge(ph, [float(w) for w in waves_u], float(qv), waveunit=unit)
                add(dict(base, qe=[sp.rj(qv)] * nw, qekind='vector', out=rmat(out)))
            elif kind == 'vector':
                qv = [dy() for _ in range(nw)]
                out = d.collect_charge(ph, [float(w) for w in waves_u], [float(x) for x in qv], waveunit=unit)
                add(dict(base, qe=[sp.rj(x) for x in qv], out=rmat(out)))
                # a pass-band written as a narrow-typed vector (a boolean or small-integer mask) applied to a narrow-typed cube of
                # large counts: the charge is a sum of counts, whatever the width of the types the operands arrive in
                qb = [Fr(rng.randint(0, 1)) for _ in range(nw)]
                phn = nr.integers(20000, 30000, size=(nw, m, n)) if rng.random() < 0.5 else nr.integers(1024, 2048, size=(nw, m, n))
                cdt, qdt = ((np.uint16, rng.choice((bool, np.uint8, np.uint16))) if phn.max() > 2048 else (np.float16, np.float16))
                outn = d.collect_charge(phn.astype(cdt), [float(w) for w in waves_u], np.array([int(x) for x in qb]).astype(qdt), waveunit=unit)
                add(dict(base, ph=phn.tolist(), qe=[sp.rj(x) for x in qb], out=rmat(outn)))
            else:
                # spectrum on its own grid and in its own unit; slice wavelengths at samples, between them, or outside
                sunit = rng.choice(('nm', 'um', 'angstrom'))
                g = Fr(10) ** (-9 - sp.EXP[sunit])
                sw = [Fr(398 + 2 * k) for k in range(12)]
                sv = [Fr(rng.randint(0, 8), 8) for _ in sw]
                sj = sp.spec_json(sunit, None, [x * g for x in sw], sv)
                qs = sp.real_spectrum(lentil, sj)
                if sunit in ('nm', 'angstrom') and rng.random() < 0.4:
                    # the same efficiency curve held in narrow storage types (every number is exactly representable there: whole
                    # nanometres / angstroms, eighths): float32 or float16 values, float32 or int32 wavelengths
                    wdt, vdt = rng.choice(((np.float32, float), (float, np.float32), (np.int32, np.float16), (np.float32, np.float32)))
                    wn, vn = np.asarray(qs.wave).astype(wdt), np.asarray(qs.value).astype(vdt)
                    if np.array_equal(wn.astype(float), qs.wave) and np.array_equal(vn.astype(float), qs.value):
                        qs = lentil.radiometry.Spectrum(wn, vn, waveunit=sunit, valueunit=None)
                out = d.collect_charge(ph, [float(w) for w in waves_u], qs, waveunit=unit)
                add(dict(base, qe=sj, out=rmat(out)))
                if rng.random() < 0.3:
                    # an efficiency TABULATED EXACTLY AT the cube's wavelengths, stored as a boolean / small-integer / half precision
                    # pass-band, applied to a narrow-typed cube of large counts
                    qb2 = [Fr(rng.randint(0, 1)) for _ in range(nw)]
                    if any(qb2):
                        phn2 = nr.integers(20000, 30000, size=(nw, m, n)) if rng.random() < 0.5 else nr.integers(1024, 2048, size=(nw, m, n))
                        cdt2, qdt2 = ((np.uint16, rng.choice((bool, np.uint8))) if phn2.max() > 2048 else (np.float16, np.float16))
                        sj2 = sp.spec_json('nm', None, [Fr(x) for x in wave_nm], qb2) if nw > 1 else None
                        if sj2 is not None:
                            qs2 = lentil.radiometry.Spectrum(np.array(wave_nm, dtype=float), np.array([int(x) for x in qb2]).astype(qdt2), waveunit='nm', valueunit=None)
                            with warnings.catch_warnings():
                                warnings.simplefilter('ignore')
                                o2 = d.collect_charge(phn2.astype(cdt2), [float(x) for x in wave_nm], qs2, waveunit='nm')
                            if not np.all(np.isfinite(o2)):
                                o2 = np.full(np.shape(o2), -1.0)
                            add(dict(base, ph=phn2.tolist(), wave=[sp.rj(Fr(x)) for x in wave_nm], wexp=-9, qe=sj2, out=rmat(o2)))
                if nw == 1 and rng.random() < 0.5:
                    # an efficiency known at ONE wavelength (the cube's): scalar, one-element vector and one-sample spectrum agree
                    q1 = Fr(rng.randint(1, 8), 8)
                    s1j = sp.spec_json('nm', None, [Fr(wave_nm[0])], [q1])
                    for wdt, vdt in ((float, float), (np.int32, float), (float, np.float32), (np.float32, np.float16)):
                        s1 = lentil.radiometry.Spectrum(np.array([wave_nm[0]]).astype(wdt), np.array([float(q1)]).astype(vdt), waveunit='nm', valueunit=None)
                        with warnings.catch_warnings():
                            warnings.simplefilter('ignore')
                            o1 = d.collect_charge(ph, [float(wave_nm[0])], s1, waveunit='nm')
                        if not np.all(np.isfinite(o1)):
                            o1 = np.full(np.shape(o1), -1.0)
                        add(dict(base, wave=[sp.rj(Fr(wave_nm[0]))], wexp=-9, qe=s1j, out=rmat(o1)))
                # the SAME efficiency object serves a second cube whose wavelengths are written in another unit
                unit2 = rng.choice([u for u in ('nm', 'um', 'angstrom') if u != unit])
                f2 = Fr(10) ** (-9 - sp.EXP[unit2])
                waves_2 = [Fr(w) * f2 for w in wave_nm]
                out2 = d.collect_charge(ph, [float(w) for w in waves_2], qs, waveunit=unit2)
                add(dict(base, wave=[sp.rj(w) for w in waves_2], wexp=sp.EXP[unit2], qe=sj, out=rmat(out2)))
                # ... and the owner of the efficiency curve then assigns it new values (a recalibration: same grid, other numbers); the
                # next collection, in whatever unit, uses the curve as it is now
                sv3 = [Fr(rng.randint(0, 8), 8) for _ in sw]
                qs.value = np.array([float(x) for x in sv3])
                sj3 = sp.spec_json(sunit, None, [x * g for x in sw], sv3)
                for un3, wv3 in ((unit2, waves_2), (unit, waves_u)):
                    out3 = d.collect_charge(ph, [float(w) for w in wv3], qs, waveunit=un3)
                    add(dict(base, wave=[sp.rj(w) for w in wv3], wexp=sp.EXP[un3], qe=sj3, out=rmat(out3)))
        except OverflowError:
            continue
    # ---- Bayer ------------------------------------------------------------------------------------------------------
    pats = [''.join(p) for k in (1, 2) for p in itertools.product('RGB', repeat=k * k)]
    pats3 = [''.join(rng.choice('RGB') for _ in range(9)) for _ in range(6 if q else 40)]
    combos = [(p, os_) for p in pats + pats3 for os_ in (1, 2, 3, 4)]
    if q:
        combos = rng.sample(combos, 120)
    for pat, os_ in combos:
        k = int(round(len(pat) ** 0.5))
        nw = rng.randint(1, 3)
        m, n = k * os_ * rng.randint(1, 2), k * os_ * rng.randint(1, 2)
        ph = nr.integers(0, 30, size=(nw, m, n))
        waves = list(range(500, 500 + nw))
        qs = [[dy() for _ in range(nw)] for _ in range(3)]
        fq = [[float(x) for x in qv] for qv in qs]
        same = rng.random() < 0.25
        if same:
            # ONE efficiency object handed to two or three channels (a panchromatic sensor behind a colour filter model): equal values
            which = rng.choice(((0, 1), (1, 2), (0, 2), (0, 1, 2)))
            for k_ in which[1:]:
                qs[k_] = qs[which[0]]
            fq = [[float(x) for x in qv] for qv in qs]
            shared = np.array(fq[which[0]])
            fq = [shared if k_ in which else fq[k_] for k_ in range(3)]
        try:
            flat = d.collect_charge_bayer(ph, waves, fq[0], fq[1], fq[2], pat, oversample=os_)
            ch = d.collect_charge_bayer(ph, waves, fq[0], fq[1], fq[2], pat, oversample=os_, flatten=False)
            add({'act': 'bayer', 'ph': ph.tolist(), 'wave': [sp.rj(w) for w in waves], 'wexp': -9, 'qekind': 'vector',
                 'qr': [sp.rj(x) for x in qs[0]], 'qg': [sp.rj(x) for x in qs[1]], 'qb': [sp.rj(x) for x in qs[2]],
                 'pat': [list(pat[r * k:(r + 1) * k]) for r in range(k)], 'os': os_, 'flat': rmat(flat), 'chans': [rmat(c) for c in ch]})
        except Exception as ex:
            add({'act': 'bayer', 'ph': ph.tolist(), 'wave': [sp.rj(w) for w in waves], 'wexp': -9, 'qekind': 'vector',
                 'qr': [sp.rj(x) for x in qs[0]], 'qg': [sp.rj(x) for x in qs[1]], 'qb': [sp.rj(x) for x in qs[2]],
                 'pat': [list(pat[r * k:(r + 1) * k]) for r in range(k)], 'os': os_, 'flat': [[[-1, 1]]], 'chans': [[[[-1, 1]]]] * 3,
                 'exc': type(ex).__name__})
    # ---- ADC ----------------------------------------------------------------------------------------------------------------
    for _ in range(260 if q else 2500):
        m, n = rng.randint(1, 4), rng.randint(1, 4)
        form = rng.choice(('scalar', 'poly', 'pixel', 'pixelpoly'))
        order = 1 if form in ('scalar', 'pixel') else rng.randint(1, 3)
        top = {1: 4000, 2: 300, 3: 60}[order]
        e = nr.integers(-top // 6, top, size=(m, n))
        g = lambda neg=False: Fr(rng.randint(-4 if neg else 0, 24), rng.choice((8, 16, 64)))
        allow_neg = rng.random() < 0.2
        if form == 'scalar':
            gain = g(allow_neg)
            gj, greal = sp.rj(gain), float(gain)
        elif form == 'poly':
            gain = [g(allow_neg) for _ in range(order)]
            gj, greal = [sp.rj(x) for x in gain], [float(x) for x in gain]
        elif form == 'pixel':
            gain = [[g(allow_neg) for _ in range(n)] for _ in range(m)]
            gj, greal = [[sp.rj(x) for x in r] for r in gain], np.array([[float(x) for x in r] for r in gain])
        else:
            gain = [[[g(allow_neg) for _ in range(n)] for _ in range(m)] for _ in range(order)]
            gj, greal = [[[sp.rj(x) for x in r] for r in p] for p in gain], np.array([[[float(x) for x in r] for r in p] for p in gain])
        sat = rng.choice((None, None, top // 2, top // 4, 1, 0, Fr(top, 2) + Fr(1, 2), Fr(top // 4 * 4 + 3, 4)))     # zero and fractional capacities are capacities
        warnflag = rng.random() < 0.5
        narrow = rng.random() < 0.12
        if narrow:
            # a half-precision frame of exactly representable counts and a capacity BETWEEN two representable values: the pixel just above
            # the capacity exceeds it (warning, clipping) although the capacity rounds onto that pixel's value in the frame's own type
            form, order, allow_neg = 'scalar', 1, False
            e = nr.integers(1024, 2048, size=(m, n))
            gain = Fr(rng.randint(1, 24), 8)
            gj, greal = sp.rj(gain), float(gain)
            sat = Fr(4 * int(e[rng.randrange(m), rng.randrange(n)]) - 1, 4)
            warnflag = True
        narrowgain = (not narrow) and rng.random() < 0.12
        if narrowgain:
            # a whole-number gain held in a narrow numpy type (np.uint8(3), a uint8 gain map, float16) applied to counts held in a narrow
            # type: the product does not fit the narrow types, the digital number is the product all the same
            form, order, allow_neg, sat = rng.choice(('scalar', 'pixel')), 1, False, None
            e = nr.integers(0, 121, size=(m, n))
            gi = rng.randint(2, 5)
            gdt = rng.choice((np.uint8, np.int8, np.float16))
            if form == 'scalar':
                gj, greal = sp.rj(Fr(gi)), gdt(gi)
            else:
                gj, greal = [[sp.rj(Fr(gi)) for _ in range(n)] for _ in range(m)], np.full((m, n), gi).astype(gdt)
        # electron counts arrive as floats or as integer counts of any width (a count is a count)
        ein = e.astype(np.float16 if narrow else (rng.choice((np.uint8, np.int8, np.int16, np.float16)) if narrowgain else rng.choice((float, float, np.int64, np.int32, np.int16, np.float32))))
        # the requested output type must be able to hold the result (otherwise the cast itself is undefined behaviour)
        try:
            with warnings.catch_warnings():
                warnings.simplefilter('ignore')
                peak = float(np.max(d.adc(ein.copy(), greal, saturation_capacity=None if sat is None else (int(sat) if Fr(sat).denominator == 1 else float(sat)))))
        except Exception:
            peak = 0.0
        dtype = rng.choice([None, 'int64'] + (['uint16'] if peak < 65000 else []) + (['int32', 'uint32'] if peak < 2 ** 31 - 1 else [])
                           + (['float32'] if peak < 2 ** 24 else []))
        e0 = ein.copy()
        with warnings.catch_warnings(record=True) as wl:
            warnings.simplefilter('always')
            try:
                dn = d.adc(ein, greal, saturation_capacity=None if sat is None else (int(sat) if Fr(sat).denominator == 1 else float(sat)), warn_saturate=warnflag,
                           dtype=None if dtype is None else np.dtype(dtype))
            except Exception as ex:
                add({'act': 'adc', 'e': e.tolist(), 'form': form, 'gain': gj, 'sat': [] if sat is None else [sp.rj(Fr(sat))], 'dn': [[-1]], 'warned': False,
                     'warnflag': warnflag, 'eafter': e.tolist(), 'dtype': 'x', 'dtypeobs': type(ex).__name__})
                continue
        warned = any('saturat' in str(w.message).lower() for w in wl)
        if np.any(dn != np.round(dn)):
            dnl = [[-7]]
        else:
            dnl = np.asarray(dn).astype(np.int64).tolist()
        add({'act': 'adc', 'e': e.tolist(), 'form': form, 'gain': gj, 'sat': [] if sat is None else [sp.rj(Fr(sat))], 'dn': dnl, 'warned': bool(warned),
             'warnflag': warnflag, 'eafter': np.asarray(ein).astype(np.int64).tolist() if np.array_equal(ein, np.round(ein)) else [[-9]],
             'dtype': dtype or 'any', 'dtypeobs': (str(np.asarray(dn).dtype) if dtype is not None else 'any')})
        if not np.array_equal(ein, e0):
            ev[-1]['eafter'] = [[-9]]
    return ev


def run(ctx):
    lentil = import_lentil()
    events = record(lentil, ctx.tier, ctx.seed)
    bad = validate_trace(ctx, 'Trace_C16', events, nparts=12)
    byid = {e['id']: e for e in events}
    for eid, clauses in bad:
        e = byid[eid]
        for cl in clauses:
            sig = {'act': e['act'], 'clause': cl}
            if e['act'] == 'bayer':
                sig.update(os=e['os'], pattern_size=len(e['pat']), exc=e.get('exc'))
            if e['act'] == 'adc':
                sig.update(form=e['form'], sat=e['sat'] != [], negative_input=bool(np.min(e['e']) < 0))
            if e['act'] == 'collect':
                sig.update(qekind=e['qekind'] if not isinstance(e['qe'], dict) else 'spectrum')
            ctx.violation(sig, {'event': e}, case={'event': e})
    import copy
    failing = {eid for eid, _ in bad}
    ev2 = copy.deepcopy([e for e in events if e['act'] == 'adc' and e['id'] not in failing][:3])
    ev2[1]['dn'][0][0] += 1
    for i, e in enumerate(ev2):
        e['id'] = i
    b2 = validate_trace(ctx, 'Trace_C16', ev2, nparts=1)
    ctx.extra['binding_selftest_corrupted_event_rejected'] = (len(b2) == 1 and b2[0][0] == 1)
    if not ctx.extra['binding_selftest_corrupted_event_rejected']:
        ctx.machinery_errors.append('Trace_C16 accepted a corrupted event')
    kinds = {}
    for e in events:
        kinds[e['act']] = kinds.get(e['act'], 0) + 1
        key = json.dumps({k: v for k, v in e.items() if k in ('act', 'pat', 'os', 'form', 'sat', 'dtype', 'qekind', 'wexp', 'e', 'ph')}, sort_keys=True)[:300]
        ctx.case(key, nontrivial=True)
    ctx.traces += len(events)
    ctx.extra['events_by_call'] = kinds
    ctx.sample(next(e for e in events if e['act'] == 'bayer'), maxn=1)
    ctx.sample(next(e for e in events if e['act'] == 'adc' and e['form'] == 'poly'), maxn=2)
    ctx.rule = ('collect_charge with scalar / vector / Spectrum efficiencies (spectrum and slice wavelengths in independent units); all 3 + 81 '
                'Bayer patterns of size 1 and 2 and seeded 3x3 patterns x oversampling 1..4 (seed-sampled in the quick tier); adc over four gain '
                'forms, orders 1..3, negative and saturating inputs, dtypes, warning flag; distinct by call arguments')
    ctx.assumptions += ['all data are integers or dyadic rationals, so float64 results are exact and compared exactly by TLC',
                        'saturation_capacity = 0 is read by the API as "none" and is not used; values stay inside the requested dtype range']


def replay(ctx, rec):
    e = dict(rec['case']['event'])
    e['id'] = 0
    for eid, clauses in validate_trace(ctx, 'Trace_C16', [e], nparts=1):
        for cl in clauses:
            ctx.violation({'act': e['act'], 'clause': cl}, {'event': e}, case={'event': e})
