------------------------------- MODULE PType -------------------------------
(* Plane-type state machine of a lentil Wavefront (property C08).                                  *)
(*                                                                                                 *)
(* The three tables are NOT written here: they are read at check time from the documentation in    *)
(* /repo/docs (drivers/c08.py parses the rst tables into JSON, this module reads the JSON), so the *)
(* specification is "what the documentation tabulates" and nothing else.                           *)
(*   DocTable[w][p]   : result type of  Wavefront(ptype w) * Plane(ptype p)  or "NotAllowed"        *)
(*   ClassPType[c]    : plane type of every documented public plane class c                         *)
(*   PropRule[w]      : type after a far-field propagation from w, or "NotAllowed"                  *)
(*                                                                                                 *)
(* State: the wavefront's type, whether it carries tilt metadata (the FFT propagator refuses such   *)
(* wavefronts, C09), the outcome of the last step and - as a history variable - the program.        *)
EXTENDS Naturals, Sequences, FiniteSets, TLC, Json, IOUtils

Doc        == JsonDeserialize(IOEnv.C08_DOC)
DocTable   == Doc.table
ClassPType == Doc.classes
PropRule   == Doc.prop

WfTypes    == DOMAIN DocTable
PlaneTypes == DOMAIN DocTable[CHOOSE w \in WfTypes : TRUE]
Classes    == DOMAIN ClassPType
NotAllowed == "NotAllowed"

VARIABLES wf,      \* ptype of the wavefront
          tilted,  \* TRUE once a plane of type tilt has been applied (tilt metadata present)
          last,    \* outcome of the last step: "ok", "TypeError", "Refused"
          prog     \* history: sequence of [act, arg, exp] - exp is what the documentation predicts
vars == <<wf, tilted, last, prog>>

MaxLen == IF "C08_LEN" \in DOMAIN IOEnv THEN atoi(IOEnv.C08_LEN) ELSE 3

Step(act, arg, exp) == [act |-> act, arg |-> arg, exp |-> exp]

\* one multiplication by a plane whose ptype is t (documented behaviour)
Mul(act, arg, t) ==
    LET r == DocTable[wf][t] IN
    IF r = NotAllowed
    THEN /\ last' = "TypeError"
         /\ UNCHANGED <<wf, tilted>>
         /\ prog' = Append(prog, Step(act, arg, "TypeError"))
    ELSE /\ last' = "ok"
         /\ wf' = r
         /\ tilted' = (tilted \/ (act = "MulClass" /\ t = "tilt") \/ act = "MulTypedTilt")   \* only tilt *elements* attach metadata
         /\ prog' = Append(prog, Step(act, arg, r))

MulType(t)  == Mul("MulType", t, t)
MulClass(c) == Mul("MulClass", c, ClassPType[c])
\* a tilt ELEMENT constructed with the explicit ptype keyword its interface documents: it has that type in the table (it is refused
\* where a plane of that type is refused) and, being a tilt element, attaches its tilt metadata where it is accepted
MulTypedTilt(t) == Mul("MulTypedTilt", t, t)

\* far-field propagation; the FFT propagator additionally refuses tilt metadata
Propagate(m) ==
    LET r == PropRule[wf] IN
    IF r = NotAllowed
    THEN /\ last' = "TypeError"
         /\ UNCHANGED <<wf, tilted>>
         /\ prog' = Append(prog, Step("Propagate", m, IF m = "fft" /\ tilted THEN "TypeErrorOrNotImplemented" ELSE "TypeError"))
    ELSE IF m = "fft" /\ tilted
    THEN /\ last' = "Refused"
         /\ UNCHANGED <<wf, tilted>>
         /\ prog' = Append(prog, Step("Propagate", m, "NotImplementedError"))
    ELSE /\ last' = "ok"
         /\ wf' = r
         /\ tilted' = FALSE          \* tilt has been turned into a displacement of the result
         /\ prog' = Append(prog, Step("Propagate", m, r))

Init == /\ wf \in WfTypes
        /\ tilted = FALSE
        /\ last = "ok"
        /\ prog = <<Step("Start", wf, wf)>>

More == Len(prog) <= MaxLen
DoMulType   == More /\ \E t \in PlaneTypes : MulType(t)
DoMulClass  == More /\ \E c \in Classes : MulClass(c)
DoMulTypedTilt == More /\ \E t \in PlaneTypes : MulTypedTilt(t)
DoPropagate == More /\ \E m \in {"dft", "fft"} : Propagate(m)
Next == DoMulType \/ DoMulClass \/ DoMulTypedTilt \/ DoPropagate

Spec == Init /\ [][Next]_vars

-----------------------------------------------------------------------------
(* Design-level properties (use A) *)

TypeOK == /\ wf \in WfTypes
          /\ last \in {"ok", "TypeError", "Refused"}
          /\ tilted \in BOOLEAN

\* closure: nothing outside the three documented wavefront types is reachable
Closure == wf \in {"none", "pupil", "image"}

\* refused steps leave the wavefront unchanged
RefusedUnchanged == [][last' # "ok" => (wf' = wf /\ tilted' = tilted)]_vars

\* propagation is allowed only from pupil / image and turns one into the other
PropOnlyPupilImage ==
    /\ \A w \in WfTypes : (PropRule[w] # NotAllowed) <=> (w \in {"pupil", "image"})
    /\ PropRule["pupil"] = "image" /\ PropRule["image"] = "pupil"

\* every documented class has a documented plane type and can be applied to some wavefront type
ClassesUsable == \A c \in Classes : /\ ClassPType[c] \in PlaneTypes
                                    /\ \E w \in WfTypes : DocTable[w][ClassPType[c]] # NotAllowed

\* the table is total and well-typed
TableOK == \A w \in WfTypes, t \in PlaneTypes : DocTable[w][t] \in WfTypes \cup {NotAllowed}

ASSUME PropOnlyPupilImage
ASSUME ClassesUsable
ASSUME TableOK

\* emission of complete programs for replay (use B): CONSTRAINT, always TRUE
Emit == (Len(prog) = MaxLen + 1) => PrintT(<<"EMIT", ToJson(prog)>>)
=============================================================================
