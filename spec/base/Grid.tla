-------------------------------- MODULE Grid --------------------------------
(* The ONE centre convention of lentil: the origin (optical axis) of an axis of n samples is the   *)
(* sample with 0-based index floor(n/2).  Everything that talks about "where a sample is" goes      *)
(* through this module, so that an off-by-one for one parity in the code cannot be mirrored by the *)
(* same off-by-one in the specification.                                                           *)
EXTENDS Integers, Sequences, FiniteSets, TLC

C(n) == n \div 2                      \* 0-based index of the origin sample

Min(a, b) == IF a <= b THEN a ELSE b
Max(a, b) == IF a >= b THEN a ELSE b
Abs(a)    == IF a >= 0 THEN a ELSE -a

\* An axis of n samples whose origin sample sits at global coordinate o ("offset"/"shift" o)
\* covers the global coordinates Lo..Hi; the sample at global coordinate g has 1-based index Idx.
Lo(n, o)     == o - C(n)
Hi(n, o)     == o - C(n) + n - 1
Range(n, o)  == Lo(n, o) .. Hi(n, o)
Idx(n, o, g) == g - Lo(n, o) + 1
Coord(n, o, i) == Lo(n, o) + i - 1    \* global coordinate of the sample with 1-based index i

\* Pixel set of an m x n array at offset <<r, c>>
Pix(sh, off) == Range(sh[1], off[1]) \X Range(sh[2], off[2])

\* a rectangle (set of pixels) described the way lentil describes extents: <<rmin, rmax, cmin, cmax>>, inclusive
ExtentOf(sh, off) == <<Lo(sh[1], off[1]), Hi(sh[1], off[1]), Lo(sh[2], off[2]), Hi(sh[2], off[2])>>
ExtPix(e) == (e[1] .. e[2]) \X (e[3] .. e[4])

\* bounding rectangle of a non-empty finite set of pixels
SetMin(S) == CHOOSE x \in S : \A y \in S : x <= y
SetMax(S) == CHOOSE x \in S : \A y \in S : x >= y
BBox(P) == LET R == {p[1] : p \in P}  Cc == {p[2] : p \in P}
           IN <<SetMin(R), SetMax(R), SetMin(Cc), SetMax(Cc)>>

\* shape and centre (the offset an array must be given so that it covers exactly the rectangle)
ExtShape(e)  == <<e[2] - e[1] + 1, e[4] - e[3] + 1>>
ExtCentre(e) == <<e[1] + C(e[2] - e[1] + 1), e[3] + C(e[4] - e[3] + 1)>>

\* sanity of the convention itself (checked by TLC as ASSUME in MC modules):
\* an array of shape sh placed at the centre of its own extent covers exactly that extent
ConventionOK(maxn, maxo) ==
    \A n \in 1..maxn, o \in -maxo..maxo :
        /\ Cardinality(Range(n, o)) = n
        /\ o \in Range(n, o)
        /\ Idx(n, o, o) = C(n) + 1
        /\ LET e == <<Lo(n, o), Hi(n, o), 0, 0>> IN ExtCentre(e)[1] = o
=============================================================================
