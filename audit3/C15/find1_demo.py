"""C15 finding 1: Spectrum.integrate (default method 'simps') and Spectrum.bin (default
arguments) raise a ValueError from inside scipy when no sample of the spectrum lies in
the integration bounds / in the span of the bin centres."""
import os
import sys

sys.path.insert(0, os.environ.get('LENTIL_REPO', '.'))

import numpy as np
import lentil
from lentil.radiometry import Spectrum

print('lentil from', lentil.__file__)

wave = np.arange(400., 701., 10.)          # 400, 410, ..., 700 nm
s = Spectrum(wave, np.ones(wave.size))     # flat, non-negative spectrum

failures = []


def attempt(label, fn, expect):
    try:
        r = fn()
    except Exception as e:                 # noqa
        failures.append(label)
        print(f'VIOLATION  {label}: raised {type(e).__name__}: {e}   (expected {expect})')
    else:
        print(f'ok         {label}: {r}')


# reference: the trapezoid rule handles the very same calls
attempt("integrate(800, 900, method='trapz')", lambda: s.integrate(800, 900, method='trapz'), '0.0')
attempt("bin([503,505,507], interp_method='trapz')",
        lambda: s.bin([503., 505., 507.], interp_method='trapz'), '3 values')

# 1a. bounds that contain no sample: beyond the sampled range ...
attempt('integrate(800, 900)', lambda: s.integrate(800, 900), '0.0')
# ... or between two neighbouring samples
attempt('integrate(502, 508)', lambda: s.integrate(502, 508), 'a number')

# 1b. bin with all defaults (simps, symmetric, preserve_power=True):
#     centres finer than the sampling of the spectrum
attempt('bin([503, 505, 507])', lambda: s.bin([503., 505., 507.]), '3 non-negative values')
attempt("bin([503, 505, 507], ends='inside')", lambda: s.bin([503., 505., 507.], ends='inside'),
        '3 non-negative values')
#     centres beyond the spectrum whose first (symmetric) bin reaches back into it
attempt('bin([710, 730, 750])', lambda: s.bin([710., 730., 750.]), '3 non-negative values')
#     the same centres are accepted without power preservation
attempt('bin([503, 505, 507], preserve_power=False)',
        lambda: s.bin([503., 505., 507.], preserve_power=False), '3 values')

if failures:
    print('\nSpectrum.integrate / Spectrum.bin raise instead of returning a value for:')
    for f in failures:
        print('   ', f)
    sys.exit(1)
sys.exit(0)
